#!/bin/bash
# full-suite confirmation of the seeded changes in the scratch worktree /tmp/wt-confirm
W=/tmp/wt-confirm
run_ctest() { (cd $W && ctest --test-dir _b -j8 --timeout 900 > /tmp/confirm_ctest_$1.log 2>&1); grep "\*\*\*Failed\|Not Run\|\*\*\*Timeout\|\*\*\*Exception" /tmp/confirm_ctest_$1.log | sed 's/.*Test *#[0-9]*: //' | awk '{print $1}' | sort > /tmp/confirm_failed_$1.txt; grep "tests passed" /tmp/confirm_ctest_$1.log; }
echo "== baseline"; run_ctest baseline; cat /tmp/confirm_failed_baseline.txt
for id in "$@"; do
  echo "== $id"
  (cd $W && git apply /verif/seeded/$id/patch.diff) || { echo "patch failed"; continue; }
  (cd $W && ninja -C _b -j10 > /tmp/confirm_build_$id.log 2>&1; echo "build exit $?")
  run_ctest $id
  diff /tmp/confirm_failed_baseline.txt /tmp/confirm_failed_$id.txt > /dev/null && echo "$id: SAME RESULTS AS BASELINE" || { echo "$id: DIFFERS"; diff /tmp/confirm_failed_baseline.txt /tmp/confirm_failed_$id.txt; }
  (cd $W && git checkout -- . )
done
(cd $W && ninja -C _b -j10 > /dev/null 2>&1)
echo "== done"
