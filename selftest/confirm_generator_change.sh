#!/bin/bash
# full-suite confirmation of a seeded change to the *generator* (exp2cxx): the build has no dependency of the generated
# schema sources on the exp2cxx binary, so the sources are regenerated here by hand; only files whose content changes
# are replaced, so that ninja recompiles only what the change touches.
# usage: confirm_generator_change.sh <seeded id>     (expects /tmp/wt-confirm/_b built at /repo's HEAD, baseline lists present)
W=/tmp/wt-confirm
id=$1
regen() {
  grep 'DEXP=' $W/_b/build.ninja | sed 's/.*-DEXP="\([^"]*\)".*-DSDIR="\([^"]*\)".*/\1 \2/' | sort -u | while read exp sdir; do
    [ -d "$sdir" ] || continue
    t=$(mktemp -d /tmp/regen.XXXXXX)
    (cd $t && LD_LIBRARY_PATH=$W/_b/lib $W/_b/bin/exp2cxx "$exp" > /dev/null 2>&1)
    n=0
    for b in $(cd $t && find . -type f | sed 's|^\./||'); do if ! cmp -s $t/$b $sdir/$b; then mkdir -p $(dirname $sdir/$b); cp $t/$b $sdir/$b; n=$((n+1)); echo "    changed: $b"; fi; done
    echo "  $(basename $sdir): $n generated files changed"
    rm -rf $t
  done
}
run_ctest() { (cd $W && ctest --test-dir _b -j8 --timeout 900 > /tmp/confirm_ctest_$1.log 2>&1); grep "\*\*\*Failed\|Not Run\|\*\*\*Timeout\|\*\*\*Exception" /tmp/confirm_ctest_$1.log | sed 's/.*Test *#[0-9]*: //' | awk '{print $1}' | sort > /tmp/confirm_failed_$1.txt; grep "tests passed" /tmp/confirm_ctest_$1.log; }
[ -f /tmp/confirm_failed_baseline.txt ] || { echo "== baseline"; run_ctest baseline; }
echo "== $id"
(cd $W && git apply /verif/seeded/$id/patch.diff) || { echo "patch failed"; exit 1; }
(cd $W && ninja -C _b -j10 exp2cxx > /tmp/confirm_build_$id.log 2>&1; echo "exp2cxx build exit $?")
regen
(cd $W && ninja -C _b -j10 >> /tmp/confirm_build_$id.log 2>&1; echo "build exit $?")
run_ctest $id
diff /tmp/confirm_failed_baseline.txt /tmp/confirm_failed_$id.txt > /dev/null && echo "$id: SAME RESULTS AS BASELINE" || { echo "$id: DIFFERS"; diff /tmp/confirm_failed_baseline.txt /tmp/confirm_failed_$id.txt; }
(cd $W && git checkout -- . && ninja -C _b -j10 exp2cxx > /dev/null 2>&1)
echo "== restoring generated sources"; regen
(cd $W && ninja -C _b -j10 > /dev/null 2>&1; echo "restore build exit $?")
echo "== done"
