#!/bin/bash
# seed soak: runs the quick tier of the given checks under a range of seeds; prints one line per run.
# usage: selftest/soak.sh <first-seed> <last-seed> [checks...]   (VERIF_REPO / VERIF_WORKERS honoured)
a=$1; b=$2; shift 2
checks=${@:-C13 C19 C01 C03 C05 C10 C11 C14 C15 C16 C06 C12}
for s in $(seq $a $b); do
  for c in $checks; do
    out=$(python3 bin/check $c --tier quick --seed $s 2>&1 | grep -E "^(OK|VIOLATION|MACHINERY|KNOWN-FINDING)" | grep -v "^KNOWN-FINDING" | cut -c1-700)
    echo "seed=$s $c: $out"
  done
done
