/* simheap — LD_PRELOAD shim that makes the process-level nondeterminism of a child tool a
 * deterministic function of SIMHEAP_SEED:
 *   - heap: bump allocator over one private mapping at a FIXED address (so ASLR of the heap is out of
 *     the picture; run the tool under `setarch -R` to fix the rest); seeded start offset, seeded
 *     padding between blocks, every fresh block filled with a seeded byte, every freed block
 *     scribbled with another one; freed blocks go to per-size free lists and are handed out again
 *     (filled afresh) under a seeded policy, so a use-after-free read sees either the scribble or the
 *     next owner's data depending on the seed, and memory use stays bounded;
 *   - stack: the constructor dirties 256 KiB below the current frame with a seeded byte, so reads of
 *     uninitialised locals see seed-dependent garbage;
 *   - clock: time() returns SIMHEAP_CLOCK when set.
 * Different seeds = different (legal) layouts; same seed = byte-identical run.
 */
#define _GNU_SOURCE
#include <stddef.h>
#include <stdint.h>
#include <string.h>
#include <stdlib.h>
#include <errno.h>
#include <time.h>
#include <unistd.h>
#include <sys/mman.h>

#define ARENA_ADDR ((void *)0x200000000000ULL)
#define ARENA_SIZE (3ULL << 30)            /* 3 GiB of address space, touched lazily */
#define HDR 16

static unsigned char * arena;
static size_t arena_pos;
static uint64_t rng_state = 0x9E3779B97F4A7C15ULL;
static unsigned char fill_new = 0xA5, fill_free = 0xDD;
static unsigned pad_mask = 0;
static unsigned reuse_mask = 1;          /* reuse when (rand & reuse_mask) == 0 : always / half / quarter of the time */
static int inited;
static long sim_clock = -1;

static uint64_t next_rand( void ) {
    uint64_t z = ( rng_state += 0x9E3779B97F4A7C15ULL );
    z = ( z ^ ( z >> 30 ) ) * 0xBF58476D1CE4E5B9ULL;
    z = ( z ^ ( z >> 27 ) ) * 0x94D049BB133111EBULL;
    return z ^ ( z >> 31 );
}

static uint64_t parse_u64( const char * s ) {
    uint64_t v = 0;
    while( s && *s >= '0' && *s <= '9' ) {
        v = v * 10 + ( uint64_t )( *s - '0' );
        s++;
    }
    return v;
}

static const char * env_get( const char * name ) {
    /* getenv() is safe here (no allocation) */
    return getenv( name );
}

static void init( void ) {
    if( inited ) {
        return;
    }
    inited = 1;
    arena = mmap( ARENA_ADDR, ARENA_SIZE, PROT_READ | PROT_WRITE, MAP_PRIVATE | MAP_ANONYMOUS | MAP_NORESERVE | MAP_FIXED_NOREPLACE, -1, 0 );
    if( arena == MAP_FAILED ) {
        arena = mmap( 0, ARENA_SIZE, PROT_READ | PROT_WRITE, MAP_PRIVATE | MAP_ANONYMOUS | MAP_NORESERVE, -1, 0 );
        if( arena == MAP_FAILED ) {
            _exit( 111 );
        }
    }
    const char * s = env_get( "SIMHEAP_SEED" );
    uint64_t seed = s ? parse_u64( s ) : 0;
    rng_state ^= seed * 0xD1342543DE82EF95ULL + 1;
    arena_pos = ( size_t )( next_rand() % 4096 ) * 16;      /* seeded start offset */
    fill_new = ( unsigned char )( next_rand() & 0xFF );
    fill_free = ( unsigned char )( next_rand() & 0xFF );
    pad_mask = ( unsigned )( ( 1u << ( next_rand() % 7 ) ) - 1 ); /* 0..63 units of 16 bytes of padding */
    reuse_mask = ( unsigned )( ( 1u << ( next_rand() % 3 ) ) - 1 ); /* reuse always / half / a quarter of the time */
    const char * c = env_get( "SIMHEAP_CLOCK" );
    if( c ) {
        sim_clock = ( long )parse_u64( c );
    }
}

/* ---- seeded reuse of freed blocks ---------------------------------------------------------- */
#define NCLASS 4097                      /* blocks up to 64 KiB: class = rounded size / 16 */
struct fblk { struct fblk * next; };
static struct fblk * freelist[NCLASS];
struct lblk { struct lblk * next; size_t size; };
static struct lblk * large_free;

static void * take_free( size_t n, size_t align ) {
    if( align > 16 ) {
        return 0;
    }
    size_t r = ( n + 15 ) & ~( size_t )15;
    if( r / 16 < NCLASS ) {
        struct fblk * b = freelist[r / 16];
        if( b && ( ( next_rand() & reuse_mask ) == 0 ) ) {
            freelist[r / 16] = b->next;
            return b;
        }
        return 0;
    }
    struct lblk ** pp = &large_free;
    while( *pp ) {
        if( ( *pp )->size >= r && ( *pp )->size <= r + r / 4 ) {
            struct lblk * b = *pp;
            *pp = b->next;
            return b;
        }
        pp = &( *pp )->next;
    }
    return 0;
}

static void give_free( unsigned char * q, size_t cap ) {
    if( cap < 16 ) {
        return;
    }
    if( cap / 16 < NCLASS ) {
        struct fblk * b = ( struct fblk * )q;
        b->next = freelist[cap / 16];
        freelist[cap / 16] = b;
    } else {
        struct lblk * b = ( struct lblk * )q;
        b->next = large_free;
        b->size = cap;
        large_free = b;
    }
}

static void * bump( size_t n, size_t align ) {
    init();
    {
        unsigned char * r = take_free( n, align );
        if( r ) {
            size_t cap = ( ( size_t * )( r - HDR ) )[1];
            ( ( size_t * )( r - HDR ) )[0] = n;
            ( void )cap;
            memset( r, fill_new, n );
            return r;
        }
    }
    if( align < 16 ) {
        align = 16;
    }
    size_t pad = pad_mask ? ( size_t )( next_rand() & pad_mask ) * 16 : 0;
    size_t p = arena_pos + pad + HDR;
    p = ( p + align - 1 ) & ~( align - 1 );
    if( p + n + 16 > ARENA_SIZE ) {
        errno = ENOMEM;
        return 0;
    }
    unsigned char * q = arena + p;
    size_t cap = ( n + 15 ) & ~( size_t )15;
    ( ( size_t * )( q - HDR ) )[0] = n;       /* requested size */
    ( ( size_t * )( q - HDR ) )[1] = cap;     /* capacity of the block */
    arena_pos = p + cap;
    memset( q, fill_new, n );
    return q;
}

void * malloc( size_t n ) {
    return bump( n ? n : 1, 16 );
}

void free( void * p ) {
    if( !p ) {
        return;
    }
    unsigned char * q = p;
    if( q < arena || q >= arena + ARENA_SIZE ) {
        return;
    }
    size_t cap = ( ( size_t * )( q - HDR ) )[1];
    memset( q, fill_free, cap );             /* scribble first: readers of the stale pointer see this ... */
    give_free( q, cap );                      /* ... until the block is handed out again (free-list link overwrites 8/16 bytes) */
}

void * calloc( size_t a, size_t b ) {
    size_t n = a * b;
    if( b && n / b != a ) {
        errno = ENOMEM;
        return 0;
    }
    void * p = bump( n ? n : 1, 16 );
    if( p ) {
        memset( p, 0, n );
    }
    return p;
}

void * realloc( void * p, size_t n ) {
    if( !p ) {
        return malloc( n );
    }
    if( n == 0 ) {
        free( p );
        return 0;
    }
    size_t old = *( size_t * )( ( unsigned char * )p - HDR );
    void * q = bump( n, 16 );
    if( q ) {
        memcpy( q, p, old < n ? old : n );
        free( p );
    }
    return q;
}

int posix_memalign( void ** out, size_t align, size_t n ) {
    void * p = bump( n ? n : 1, align );
    if( !p ) {
        return ENOMEM;
    }
    *out = p;
    return 0;
}

void * aligned_alloc( size_t align, size_t n ) {
    return bump( n ? n : 1, align );
}

void * memalign( size_t align, size_t n ) {
    return bump( n ? n : 1, align );
}

void * valloc( size_t n ) {
    return bump( n ? n : 1, 4096 );
}

size_t malloc_usable_size( void * p ) {
    return p ? *( size_t * )( ( unsigned char * )p - HDR ) : 0;
}

time_t time( time_t * t ) {
    init();
    time_t v;
    if( sim_clock >= 0 ) {
        v = ( time_t )sim_clock;
    } else {
        struct timespec ts;
        clock_gettime( CLOCK_REALTIME, &ts );
        v = ts.tv_sec;
    }
    if( t ) {
        *t = v;
    }
    return v;
}

static void __attribute__( ( noinline ) ) dirty_stack( unsigned char b ) {
    volatile unsigned char buf[256 * 1024];
    size_t i;
    for( i = 0; i < sizeof buf; i++ ) {
        buf[i] = b;
    }
}

static void __attribute__( ( constructor ) ) simheap_ctor( void ) {
    init();
    dirty_stack( ( unsigned char )( next_rand() & 0xFF ) );
}
