// p21sim — applies a plan (files on the simulated disk + operation history) to the
// real Part 21 machinery of stepcode, linked against one generated schema library:
// eager reader/writer (STEPfile), working-session files, instance states, lazy loader.
// Records observations only; every judgement is made by the Python oracles.
#include "simexec.h"

#include "clstepcore/sdai.h"
#include "clstepcore/instmgr.h"
#include "clstepcore/Registry.h"
#include "clstepcore/STEPcomplex.h"
#include "clstepcore/STEPattribute.h"
#include "clstepcore/STEPaggregate.h"
#include "clstepcore/ExpDict.h"
#include "cleditor/STEPfile.h"
#include "cllazyfile/lazyInstMgr.h"
#include "cllazyfile/lazyTypes.h"

#include <sstream>
#include <fstream>
#include <set>
#include <map>
#include <vector>
#include <unistd.h>
#include <sys/stat.h>

extern void SchemaInit( Registry & );

using namespace sim;

struct Session {
    Registry * reg = nullptr;
    InstMgr * mgr = nullptr;
    STEPfile * sf = nullptr;
    lazyInstMgr * lazy = nullptr;
    bool strict = false;
};

static void write_file( const std::string & name, const std::string & bytes ) {
    std::ofstream f( name.c_str(), std::ios::binary | std::ios::trunc );
    f.write( bytes.data(), ( std::streamsize )bytes.size() );
}

static bool read_file( const std::string & name, std::string & out ) {
    // bypasses the delivery schedule on purpose (harness I/O): plain stdio
    FILE * f = fopen( name.c_str(), "rb" );
    if( !f ) {
        return false;
    }
    char buf[65536];
    size_t n;
    out.clear();
    while( ( n = fread( buf, 1, sizeof buf, f ) ) > 0 ) {
        out.append( buf, n );
    }
    fclose( f );
    return true;
}

static void new_session( Session & s, bool strict ) {
    // the previous session's objects are left alone on purpose when "leak" semantics are wanted;
    // here we tear down properly so destructor defects surface under ASan
    if( s.sf ) {
        delete s.sf;
        s.sf = nullptr;
    }
    if( s.mgr ) {
        delete s.mgr;
        s.mgr = nullptr;
    }
    if( !s.reg ) {
        s.reg = new Registry( SchemaInit );
    }
    s.mgr = new InstMgr( 1 );
    s.strict = strict;
    s.sf = new STEPfile( *s.reg, *s.mgr, "", strict );
}

static std::string inst_text( SDAI_Application_instance * se ) {
    std::ostringstream os;
    se->STEPwrite( os, 0, 0 );
    return os.str();
}

static std::string attrs_json( SDAI_Application_instance * se ) {
    std::ostringstream a;
    a << "[";
    int n = se->attributes.list_length();
    for( int i = 0; i < n; i++ ) {
        STEPattribute & at = se->attributes[i];
        std::string v;
        at.asStr( v );
        if( i ) {
            a << ",";
        }
        a << "{\"n\":" << jq( at.Name() ? at.Name() : "" ) << ",\"v\":" << jq( v )
          << ",\"null\":" << ( at.is_null() ? "true" : "false" )
          << ",\"der\":" << ( at.IsDerived() ? "true" : "false" ) << "}";
    }
    a << "]";
    return a.str();
}

static std::string inst_json( SDAI_Application_instance * se, int state, bool with_attrs ) {
    std::ostringstream o;
    o << "{\"id\":" << se->StepFileId() << ",\"state\":" << state;
    if( se->IsComplex() ) {
        STEPcomplex * c = ( ( STEPcomplex * )se )->head;
        o << ",\"parts\":[";
        bool first = true;
        while( c ) {
            if( !first ) {
                o << ",";
            }
            first = false;
            o << "{\"ent\":" << jq( c->EntityName() );
            if( with_attrs ) {
                o << ",\"attrs\":" << attrs_json( c );
            }
            o << "}";
            c = c->sc;
        }
        o << "]";
    } else {
        o << ",\"ent\":" << jq( se->EntityName() );
        if( with_attrs ) {
            o << ",\"attrs\":" << attrs_json( se );
        }
    }
    o << ",\"text\":" << jq( inst_text( se ) ) << "}";
    return o.str();
}

static std::string dump_population( Session & s, bool with_attrs ) {
    std::ostringstream o;
    o << "[";
    int n = s.mgr->InstanceCount();
    for( int i = 0; i < n; i++ ) {
        MgrNode * mn = s.mgr->GetMgrNode( i );
        if( i ) {
            o << ",";
        }
        o << inst_json( mn->GetApplication_instance(), ( int )mn->CurrState(), with_attrs );
    }
    o << "]";
    return o.str();
}

static std::string dump_header( Session & s ) {
    std::ostringstream o;
    o << "[";
    InstMgr * h = s.sf->HeaderInstances();
    int n = h ? h->InstanceCount() : 0;
    for( int i = 0; i < n; i++ ) {
        if( i ) {
            o << ",";
        }
        SDAI_Application_instance * se = h->GetApplication_instance( i );
        o << "{\"id\":" << se->StepFileId() << ",\"ent\":" << jq( se->EntityName() ) << ",\"text\":" << jq( inst_text( se ) ) << "}";
    }
    o << "]";
    return o.str();
}

static void status( Session & s, Obs & o, Severity ret ) {
    o.k( "ret", ( int )ret ).k( "sev", ( int )s.sf->Error().severity() )
    .k( "errors", s.sf->ErrorCount() ).k( "warnings", s.sf->WarningCount() )
    .k( "insts", s.mgr->InstanceCount() ).k( "maxid", s.mgr->MaxFileId() );
    // the exit rule of the reference tool (src/test/p21read/p21read.cc: `severity() <= SEVERITY_INCOMPLETE` => exit 1)
    o.k( "p21read_exit", s.sf->Error().severity() <= SEVERITY_INCOMPLETE ? 1 : 0 );
    o.k( "below_usermsg", s.sf->Error().severity() < SEVERITY_USERMSG ? 1 : 0 );
    std::string um = s.sf->Error().UserMsg();
    std::string dm = s.sf->Error().DetailMsg();
    {
        // messages embed the private directory of the run: scrub it so that observations repeat exactly
        char cwd[4096];
        if( getcwd( cwd, sizeof cwd ) ) {
            std::string d = cwd;
            for( std::string * m : { &um, &dm } ) {
                size_t p;
                while( ( p = m->find( d ) ) != std::string::npos ) {
                    m->replace( p, d.size(), "<dir>" );
                }
            }
        }
    }
    if( um.size() > 600 ) {
        um.resize( 600 );
    }
    if( dm.size() > 1200 ) {
        dm.resize( 1200 );
    }
    o.k( "usermsg", um ).k( "detailmsg", dm );
}

static std::string refs_json( instanceRefs_t * refs ) {
    std::ostringstream o;
    o << "{";
    bool first = true;
    instanceRefs_t::cpair p = refs->begin();
    while( p.value ) {
        if( !first ) {
            o << ",";
        }
        first = false;
        o << "\"" << p.key << "\":[";
        for( size_t i = 0; i < p.value->size(); i++ ) {
            if( i ) {
                o << ",";
            }
            o << ( *p.value )[i];
        }
        o << "]";
        p = refs->next();
    }
    o << "}";
    return o.str();
}

static std::string inverse_json( SDAI_Application_instance * se ) {
    // std::map order is pointer order: report sorted by name so the observation is layout-independent.
    // The inverse attributes of an externally mapped instance live in its parts: per attribute the union over the parts is reported.
    std::map<std::string, std::pair<bool, std::vector<int> > > byname;
    std::vector<SDAI_Application_instance *> holders;
    if( se->IsComplex() ) {
        for( STEPcomplex * p = ( ( STEPcomplex * )se )->head; p; p = p->sc ) {
            holders.push_back( p );
        }
    } else {
        holders.push_back( se );
    }
    for( SDAI_Application_instance * h : holders ) {
        const SDAI_Application_instance::iAMap_t & m = h->getInvAttrs();
        for( auto it = m.begin(); it != m.end(); ++it ) {
            const Inverse_attribute * ia = it->first;
            bool aggr = ia->IsAggrType() != 0;   // the same rule the generated accessors follow
            std::string key = std::string( ia->Name() ? ia->Name() : "" );
            if( ia->Owner().Name() ) {
                key = std::string( ia->Owner().Name() ) + "." + key;
            }
            std::pair<bool, std::vector<int> > & rec = byname[key];
            rec.first = aggr;
            std::vector<int> ids;
            if( aggr ) {
                EntityAggregate * ea = it->second.a;
                if( ea ) {
                    for( EntityNode * en = ( EntityNode * )ea->GetHead(); en; en = ( EntityNode * )en->NextNode() ) {
                        ids.push_back( en->node ? en->node->StepFileId() : -1 );
                    }
                }
            } else if( it->second.i ) {
                ids.push_back( it->second.i->StepFileId() );
            }
            if( holders.size() == 1 || rec.second.empty() ) {
                rec.second = ids;       // a simple instance: as held (duplicates included); a part: the first non-empty copy
            }
        }
    }
    std::ostringstream o;
    o << "{";
    bool first = true;
    for( auto & kv : byname ) {
        if( !first ) {
            o << ",";
        }
        first = false;
        o << jq( kv.first ) << ":{\"aggr\":" << ( kv.second.first ? "true" : "false" ) << ",\"ids\":[";
        for( size_t k = 0; k < kv.second.second.size(); k++ ) {
            o << ( k ? "," : "" ) << kv.second.second[k];
        }
        o << "]}";
    }
    o << "}";
    return o.str();
}

static void run_plan( const J & plan ) {
    Session s;
    const J * files = plan.get( "files" );
    if( files && files->t == J::OBJ ) {
        for( auto & kv : files->o ) {
            write_file( kv.first, kv.second->s );
        }
    }
    new_session( s, plan.num( "strict", 0 ) != 0 );
    std::map<std::string, SDAI_Application_instance *> lazy_loaded;
    int step = 0;
    for( auto & opp : plan.arr( "ops" ) ) {
        const J & op = *opp;
        std::string k = op.str( "op" );
        Obs o;
        o.k( "step", step++ ).k( "op", k );
        if( op.has( "delivery" ) ) {
            set_delivery( op.get( "delivery" ) );
        } else {
            set_delivery( nullptr );
        }
        World & w = world();
        long reads0 = w.reads, opens0 = ( long )w.opens;
        if( k == "session" ) {
            new_session( s, op.num( "strict", 0 ) != 0 );
        } else if( k == "read" || k == "append" || k == "read_working" || k == "append_working" ) {
            std::string f = op.str( "file" );
            Severity r;
            struct stat st;
            if( op.num( "skip_if_empty", 0 ) && stat( f.c_str(), &st ) == 0 && st.st_size == 0 ) {
                // the previous write produced nothing; re-reading an empty file is another property's business (C05)
                o.k( "skipped", 1 );
                emit( o );
                continue;
            }
            if( k == "read" ) {
                r = s.sf->ReadExchangeFile( f );
            } else if( k == "append" ) {
                r = s.sf->AppendExchangeFile( f );
            } else if( k == "read_working" ) {
                r = s.sf->ReadWorkingFile( f );
            } else {
                r = s.sf->AppendWorkingFile( f );
            }
            status( s, o, r );
        } else if( k == "write_exchange" || k == "write_working" ) {
            w.clock = ( long )op.num( "clock", 1000000000 );
            std::string into = op.str( "into", "out.p21" );
            Severity r;
            std::string bytes;
            if( op.num( "byname", 0 ) ) {
                r = ( k == "write_exchange" ) ? s.sf->WriteExchangeFile( into ) : s.sf->WriteWorkingFile( into );
                read_file( into, bytes );
            } else {
                std::ostringstream os;
                r = ( k == "write_exchange" ) ? s.sf->WriteExchangeFile( os ) : s.sf->WriteWorkingFile( os );
                bytes = os.str();
                write_file( into, bytes );
            }
            o.k( "ret", ( int )r ).k( "sev", ( int )s.sf->Error().severity() ).k( "bytes", bytes );
        } else if( k == "dump" ) {
            o.raw( "pop", dump_population( s, op.num( "attrs", 0 ) != 0 ) );
            if( op.num( "header", 0 ) ) {
                o.raw( "header", dump_header( s ) );
            }
        } else if( k == "set_state" ) {
            MgrNode * mn = s.mgr->FindFileId( ( int )op.num( "id" ) );
            if( !mn ) {
                o.k( "error", "set_state: no such id" );
            } else {
                s.mgr->ChangeState( mn, ( stateEnum )op.num( "state" ) );
            }
        } else if( k == "null_attr" ) {
            MgrNode * mn = s.mgr->FindFileId( ( int )op.num( "id" ) );
            if( !mn ) {
                o.k( "error", "null_attr: no such id" );
            } else {
                SDAI_Application_instance * se = mn->GetApplication_instance();
                int part = ( int )op.num( "part", -1 );
                if( se->IsComplex() && part >= 0 ) {
                    STEPcomplex * c = ( ( STEPcomplex * )se )->head;
                    for( int q = 0; q < part && c; q++ ) {
                        c = c->sc;
                    }
                    se = c;
                }
                // "attr" is the Part 21 slot index: redefining attributes occupy no slot of their own
                int slot = ( int )op.num( "attr" );
                int ai = -1;
                for( int q = 0, seen = 0; se && q < se->attributes.list_length(); q++ ) {
                    if( se->attributes[q].aDesc->AttrType() == AttrType_Redefining ) {
                        continue;
                    }
                    if( seen == slot ) {
                        ai = q;
                        break;
                    }
                    seen++;
                }
                if( !se || ai < 0 ) {
                    o.k( "error", "null_attr: no such attribute" );
                } else {
                    o.k( "ret", ( int )se->attributes[ai].set_null() );
                }
            }
        } else if( k == "lazy_open" ) {
            if( s.lazy ) {
                delete s.lazy;
            }
            lazy_loaded.clear();
            s.lazy = new lazyInstMgr;
            s.lazy->initRegistry( SchemaInit );
            s.lazy->openFile( op.str( "file" ) );
            o.k( "total", ( long long )s.lazy->totalInstanceCount() ).k( "loaded", ( long long )s.lazy->loadedInstanceCount() )
            .k( "sections", ( long long )s.lazy->countDataSections() );
        } else if( k == "lazy_tables" ) {
            o.raw( "fwd", refs_json( s.lazy->getFwdRefs() ) ).raw( "rev", refs_json( s.lazy->getRevRefs() ) );
            // index: id -> keyword as the lazy loader sees it, for every id the plan asks about
            std::ostringstream t;
            t << "{";
            bool first = true;
            for( auto & idp : op.arr( "ids" ) ) {
                const char * ty = s.lazy->typeFromFile( ( instanceID )idp->i );
                if( !first ) {
                    t << ",";
                }
                first = false;
                t << "\"" << idp->i << "\":";
                if( ty ) {
                    t << jq( ty );
                } else {
                    t << "null";
                }
            }
            t << "}";
            o.raw( "types", t.str() );
            std::ostringstream c;
            c << "{";
            first = true;
            for( auto & tp : op.arr( "typenames" ) ) {
                instanceTypes_t::cvector * v = s.lazy->getInstances( tp->s, op.num( "case_sensitive", 0 ) != 0 );
                if( !first ) {
                    c << ",";
                }
                first = false;
                c << jq( tp->s ) << ":[";
                if( v ) {
                    for( size_t i = 0; i < v->size(); i++ ) {
                        if( i ) {
                            c << ",";
                        }
                        c << ( *v )[i];
                    }
                }
                c << "]";
            }
            c << "}";
            o.raw( "by_type", c.str() );
            o.k( "total", ( long long )s.lazy->totalInstanceCount() ).k( "loaded", ( long long )s.lazy->loadedInstanceCount() );
        } else if( k == "lazy_load" ) {
            instanceID id = ( instanceID )op.num( "id" );
            SDAI_Application_instance * se = s.lazy->loadInstance( id, op.num( "reseek", 0 ) != 0 );
            if( !se ) {
                o.knull( "text" );
            } else {
                o.k( "text", inst_text( se ) ).k( "fileid", se->StepFileId() );
                if( op.num( "inverse", 0 ) ) {
                    o.raw( "inverse", inverse_json( se ) );
                }
            }
            o.k( "loaded", ( long long )s.lazy->loadedInstanceCount() );
        } else if( k == "lazy_deps" ) {
            instanceSet * d = s.lazy->instanceDependencies( ( instanceID )op.num( "id" ) );
            std::ostringstream t;
            t << "[";
            if( d ) {
                bool first = true;
                for( auto it = d->begin(); it != d->end(); ++it ) {
                    if( !first ) {
                        t << ",";
                    }
                    first = false;
                    t << *it;
                }
                delete d;
            }
            t << "]";
            o.raw( "deps", t.str() );
        } else if( k == "lazy_type" ) {
            const char * ty = s.lazy->typeFromFile( ( instanceID )op.num( "id" ) );
            if( ty ) {
                o.k( "type", ty );
            } else {
                o.knull( "type" );
            }
        } else if( k == "noop" ) {
        } else {
            o.k( "error", "unknown op" );
        }
        o.k( "d_reads", w.reads - reads0 ).k( "d_opens", ( long )w.opens - opens0 );
        emit( o );
    }
    if( plan.num( "teardown", 1 ) ) {
        if( s.lazy ) {
            delete s.lazy;
        }
        delete s.sf;
        delete s.mgr;
        Obs o;
        o.k( "teardown", 1 );
        emit( o );
    }
}

int main( int argc, char ** argv ) {
    return server_main( argc, argv, run_plan, 4000 );
}
