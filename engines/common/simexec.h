// simexec.h — shared shell of the simulation executors (mgrsim, p21sim).
//
//  * a tiny JSON reader/writer (plans come in as one JSON document per line,
//    observations leave as JSON lines; bytes travel as latin-1 strings);
//  * the fork-server: the parent reads plans on stdin; for every plan it forks
//    a child that executes the plan against real stepcode code and writes
//    observation lines to a pipe; the parent classifies how the child ended
//    (ok / asan / ubsan / signal / cpu / wall) and prints everything on stdout;
//  * the simulated world's seams that live inside the process: delivery
//    schedule for read(2) (link with -Wl,--wrap=read), simulated clock
//    (-Wl,--wrap=time).
//
// No oracle logic lives here or in the executors: they apply plans and record.
#ifndef SIMEXEC_H
#define SIMEXEC_H

#include <string>
#include <vector>
#include <map>
#include <memory>
#include <cstdio>
#include <cstdlib>
#include <cstring>
#include <cstdint>
#include <stdexcept>

namespace sim {

// ---------------------------------------------------------------- JSON ----
struct J;
typedef std::shared_ptr<J> JP;
struct J {
    enum T { NUL, BOOL, NUM, STR, ARR, OBJ } t = NUL;
    bool b = false;
    double d = 0;
    long long i = 0;
    bool isint = false;
    std::string s;
    std::vector<JP> a;
    std::vector<std::pair<std::string, JP>> o;

    const J * get( const char * k ) const {
        for( auto & kv : o ) if( kv.first == k ) {
                return kv.second.get();
            }
        return nullptr;
    }
    bool has( const char * k ) const {
        return get( k ) != nullptr;
    }
    long long num( const char * k, long long dflt = 0 ) const {
        const J * j = get( k );
        if( !j ) {
            return dflt;
        }
        if( j->t == BOOL ) {
            return j->b ? 1 : 0;
        }
        if( j->t != NUM ) {
            return dflt;
        }
        return j->isint ? j->i : ( long long )j->d;
    }
    std::string str( const char * k, const std::string & dflt = "" ) const {
        const J * j = get( k );
        if( !j || j->t != STR ) {
            return dflt;
        }
        return j->s;
    }
    const std::vector<JP> & arr( const char * k ) const {
        static const std::vector<JP> empty;
        const J * j = get( k );
        if( !j || j->t != ARR ) {
            return empty;
        }
        return j->a;
    }
};

class JParser {
        const char * p;
        const char * e;
        void ws() {
            while( p < e && ( *p == ' ' || *p == '\n' || *p == '\t' || *p == '\r' ) ) {
                ++p;
            }
        }
        [[noreturn]] void fail( const char * m ) {
            throw std::runtime_error( std::string( "json: " ) + m );
        }
        std::string pstr() {
            std::string r;
            if( *p != '"' ) {
                fail( "expected string" );
            }
            ++p;
            while( p < e && *p != '"' ) {
                if( *p == '\\' ) {
                    ++p;
                    if( p >= e ) {
                        fail( "bad escape" );
                    }
                    switch( *p ) {
                        case 'n':
                            r += '\n';
                            break;
                        case 't':
                            r += '\t';
                            break;
                        case 'r':
                            r += '\r';
                            break;
                        case 'b':
                            r += '\b';
                            break;
                        case 'f':
                            r += '\f';
                            break;
                        case 'u': {
                            if( e - p < 5 ) {
                                fail( "bad \\u" );
                            }
                            unsigned v = 0;
                            for( int k = 1; k <= 4; k++ ) {
                                char c = p[k];
                                v <<= 4;
                                if( c >= '0' && c <= '9' ) {
                                    v |= c - '0';
                                } else if( c >= 'a' && c <= 'f' ) {
                                    v |= c - 'a' + 10;
                                } else if( c >= 'A' && c <= 'F' ) {
                                    v |= c - 'A' + 10;
                                } else {
                                    fail( "bad \\u digit" );
                                }
                            }
                            if( v > 255 ) {
                                fail( "code point > 255 (bytes travel as latin-1)" );
                            }
                            r += ( char )v;
                            p += 4;
                            break;
                        }
                        default:
                            r += *p;
                    }
                    ++p;
                } else {
                    unsigned char c = ( unsigned char ) * p;
                    if( c >= 0x80 ) {
                        // utf-8 two-byte sequence for U+0080..U+00FF
                        if( ( c == 0xC2 || c == 0xC3 ) && p + 1 < e ) {
                            r += ( char )( ( ( c & 0x3 ) << 6 ) | ( ( unsigned char )p[1] & 0x3F ) );
                            p += 2;
                            continue;
                        }
                        fail( "non-latin-1 utf-8" );
                    }
                    r += *p++;
                }
            }
            if( p >= e ) {
                fail( "unterminated string" );
            }
            ++p;
            return r;
        }
    public:
        JParser( const char * b, const char * en ) : p( b ), e( en ) {}
        JP value() {
            ws();
            if( p >= e ) {
                fail( "eof" );
            }
            JP j = std::make_shared<J>();
            if( *p == '{' ) {
                j->t = J::OBJ;
                ++p;
                ws();
                if( *p == '}' ) {
                    ++p;
                    return j;
                }
                for( ;; ) {
                    ws();
                    std::string k = pstr();
                    ws();
                    if( *p != ':' ) {
                        fail( "expected :" );
                    }
                    ++p;
                    JP v = value();
                    j->o.push_back( std::make_pair( k, v ) );
                    ws();
                    if( *p == ',' ) {
                        ++p;
                        continue;
                    }
                    if( *p == '}' ) {
                        ++p;
                        break;
                    }
                    fail( "expected , or }" );
                }
            } else if( *p == '[' ) {
                j->t = J::ARR;
                ++p;
                ws();
                if( *p == ']' ) {
                    ++p;
                    return j;
                }
                for( ;; ) {
                    j->a.push_back( value() );
                    ws();
                    if( *p == ',' ) {
                        ++p;
                        continue;
                    }
                    if( *p == ']' ) {
                        ++p;
                        break;
                    }
                    fail( "expected , or ]" );
                }
            } else if( *p == '"' ) {
                j->t = J::STR;
                j->s = pstr();
            } else if( !strncmp( p, "true", 4 ) ) {
                j->t = J::BOOL;
                j->b = true;
                p += 4;
            } else if( !strncmp( p, "false", 5 ) ) {
                j->t = J::BOOL;
                j->b = false;
                p += 5;
            } else if( !strncmp( p, "null", 4 ) ) {
                p += 4;
            } else {
                const char * q = p;
                bool isint = true;
                if( *q == '-' ) {
                    ++q;
                }
                while( q < e && ( ( *q >= '0' && *q <= '9' ) || *q == '.' || *q == 'e' || *q == 'E' || *q == '+' || *q == '-' ) ) {
                    if( *q == '.' || *q == 'e' || *q == 'E' ) {
                        isint = false;
                    }
                    ++q;
                }
                if( q == p ) {
                    fail( "unexpected character" );
                }
                std::string n( p, q );
                j->t = J::NUM;
                j->isint = isint;
                if( isint ) {
                    j->i = strtoll( n.c_str(), 0, 10 );
                    j->d = ( double )j->i;
                } else {
                    j->d = strtod( n.c_str(), 0 );
                    j->i = ( long long )j->d;
                }
                p = q;
            }
            return j;
        }
};

inline JP parse( const std::string & s ) {
    JParser p( s.data(), s.data() + s.size() );
    return p.value();
}

// JSON string literal for arbitrary bytes (latin-1 mapping)
inline std::string jq( const std::string & s ) {
    std::string r = "\"";
    char buf[8];
    for( unsigned char c : s ) {
        if( c == '"' ) {
            r += "\\\"";
        } else if( c == '\\' ) {
            r += "\\\\";
        } else if( c < 0x20 || c >= 0x7f ) {
            snprintf( buf, sizeof buf, "\\u%04x", c );
            r += buf;
        } else {
            r += ( char )c;
        }
    }
    r += '"';
    return r;
}

// incremental object writer: Obs o; o.k("op","read").k("n",3); emit(o)
class Obs {
        std::string s;
        bool first = true;
        void key( const char * k ) {
            if( !first ) {
                s += ',';
            }
            first = false;
            s += '"';
            s += k;
            s += "\":";
        }
    public:
        Obs & k( const char * key_, long long v ) {
            key( key_ );
            s += std::to_string( v );
            return *this;
        }
        Obs & k( const char * key_, int v ) {
            return k( key_, ( long long )v );
        }
        Obs & k( const char * key_, unsigned long v ) {
            return k( key_, ( long long )v );
        }
        Obs & k( const char * key_, long v ) {
            return k( key_, ( long long )v );
        }
        Obs & k( const char * key_, const std::string & v ) {
            key( key_ );
            s += jq( v );
            return *this;
        }
        Obs & k( const char * key_, const char * v ) {
            return k( key_, std::string( v ? v : "" ) );
        }
        Obs & kb( const char * key_, bool v ) {
            key( key_ );
            s += v ? "true" : "false";
            return *this;
        }
        Obs & knull( const char * key_ ) {
            key( key_ );
            s += "null";
            return *this;
        }
        Obs & raw( const char * key_, const std::string & json ) {
            key( key_ );
            s += json;
            return *this;
        }
        std::string str() const {
            return "{" + s + "}";
        }
};

// --------------------------------------------------- simulated world ----
struct Delivery {          // one per open() of a simulated (regular) file
    std::string kind;      // whole | fixed | cycle | rand
    std::vector<long> sizes;
    uint64_t rng = 0;
    long maxn = 0;
    size_t pos = 0;
};

struct World {
    std::vector<Delivery> schedule;   // consumed in order of file opens; last one repeats
    size_t opens = 0;
    long reads = 0;
    long bytes = 0;
    long short_reads = 0;
    long clock = 1000000000;          // value returned by time()
    long clock_reads = 0;
};
World & world();
void set_delivery( const J * arr );   // from an op's "delivery" array
void emit( const Obs & o );           // child: write one observation line
void emit_raw( const std::string & line );

typedef void ( *PlanFn )( const J & plan );
int server_main( int argc, char ** argv, PlanFn fn, long cpu_ms_default );

} // namespace sim
#endif
