// simexec.cc — see simexec.h
#include "simexec.h"

#include <unistd.h>
#include <fcntl.h>
#include <poll.h>
#include <signal.h>
#include <errno.h>
#include <time.h>
#include <sys/types.h>
#include <sys/wait.h>
#include <sys/stat.h>
#include <sys/time.h>
#include <sys/resource.h>
#include <iostream>
#include <fstream>
#include <ftw.h>
#include <exception>
#include <execinfo.h>

// sanitizer runtime configuration: distinct exit codes so the parent can classify
extern "C" __attribute__( ( used, visibility( "default" ) ) ) const char * __asan_default_options() {
    return "exitcode=77:detect_leaks=0:abort_on_error=0:allocator_may_return_null=1:detect_stack_use_after_return=0:handle_abort=0";
}
extern "C" __attribute__( ( used, visibility( "default" ) ) ) const char * __ubsan_default_options() {
    return "halt_on_error=1:exitcode=78:print_stacktrace=1";
}

// sanitizer runtime helpers (weak: absent in the plain flavour)
extern "C" {
    void __sanitizer_symbolize_pc( void * pc, const char * fmt, char * out_buf, size_t out_buf_size ) __attribute__( ( weak ) );
}

namespace sim {

// ---- hang sampler ------------------------------------------------------------
// When the virtual-CPU budget expires the stack is sampled three times, 40 ms of CPU apart; the
// innermost frame common to all samples is where the run is looping.  That frame (symbolised) names
// the hang, so the violation class is stable although the interrupted instruction is not.
static const int HS_MAX = 96;
static void * hs_frames[3][HS_MAX];
static int hs_n[3];
static volatile int hs_count = 0;

static std::string hs_func( void * pc ) {
    char buf[1024];
    buf[0] = 0;
    if( __sanitizer_symbolize_pc ) {
        __sanitizer_symbolize_pc( pc, "%f", buf, sizeof buf );
    }
    std::string f = buf[0] ? buf : "??";
    size_t p = f.find( '(' );
    if( p != std::string::npos ) {
        f.resize( p );
    }
    return f;
}

static void hs_report() {
    // frames are innermost-first; compare FUNCTIONS (not pcs) from the outermost end: the innermost function
    // common to all three samples is the one that is looping
    std::vector<std::string> fn[3];
    for( int k = 0; k < 3; k++ ) {
        for( int i = hs_n[k] - 1; i >= 0; i-- ) {
            fn[k].push_back( hs_func( hs_frames[k][i] ) );
        }
    }
    size_t common = 0;
    while( common < fn[0].size() && common < fn[1].size() && common < fn[2].size()
            && fn[0][common] == fn[1][common] && fn[0][common] == fn[2][common] ) {
        common++;
    }
    dprintf( 2, "HANG-SAMPLER: %d common outer frames\n", ( int )common );
    char buf[1024];
    int idx = 0;
    for( int c = ( int )common - 1; c >= 0 && idx < 12; c--, idx++ ) {
        void * pc = hs_frames[0][hs_n[0] - 1 - c];
        buf[0] = 0;
        if( __sanitizer_symbolize_pc ) {
            __sanitizer_symbolize_pc( pc, "%s:%l", buf, sizeof buf );
        }
        dprintf( 2, "    #%d %p in %s %s\n", idx, pc, fn[0][c].c_str(), buf[0] ? buf : "??" );
    }
}

static void hs_handler( int ) {
    int k = hs_count;
    if( k < 3 ) {
        hs_n[k] = backtrace( hs_frames[k], HS_MAX );
        hs_count = k + 1;
    }
    if( hs_count >= 3 ) {
        hs_report();
        _exit( 95 );
    }
    struct itimerval it;
    memset( &it, 0, sizeof it );
    it.it_value.tv_usec = 40000;
    setitimer( ITIMER_VIRTUAL, &it, 0 );
}

static World g_world;
World & world() {
    return g_world;
}

static int g_obs_fd = 1;

void emit_raw( const std::string & line ) {
    std::string s = "O " + line + "\n";
    const char * p = s.data();
    size_t n = s.size();
    while( n ) {
        ssize_t w = ::write( g_obs_fd, p, n );
        if( w < 0 ) {
            if( errno == EINTR ) {
                continue;
            }
            _exit( 99 );
        }
        p += w;
        n -= w;
    }
}
void emit( const Obs & o ) {
    emit_raw( o.str() );
}

void set_delivery( const J * arr ) {
    World & w = world();
    w.schedule.clear();
    w.opens = 0;
    if( !arr || arr->t != J::ARR ) {
        return;
    }
    for( auto & e : arr->a ) {
        Delivery d;
        d.kind = e->str( "kind", "whole" );
        for( auto & s : e->arr( "sizes" ) ) {
            long v = ( long )( s->isint ? s->i : ( long long )s->d );
            if( v < 1 ) {
                v = 1;
            }
            d.sizes.push_back( v );
        }
        d.rng = ( uint64_t )e->num( "seed", 1 );
        d.maxn = ( long )e->num( "max", 16 );
        if( d.maxn < 1 ) {
            d.maxn = 1;
        }
        w.schedule.push_back( d );
    }
}

// ---- fd table for simulated files -----------------------------------------
static const int MAXFD = 1024;
static Delivery * g_fd[MAXFD];
static Delivery g_fdstore[MAXFD];

static inline uint64_t splitmix( uint64_t & x ) {
    uint64_t z = ( x += 0x9E3779B97F4A7C15ull );
    z = ( z ^ ( z >> 30 ) ) * 0xBF58476D1CE4E5B9ull;
    z = ( z ^ ( z >> 27 ) ) * 0x94D049BB133111EBull;
    return z ^ ( z >> 31 );
}

static long next_chunk( Delivery & d, long want ) {
    if( d.kind == "whole" ) {
        return want;
    }
    long n = want;
    if( d.kind == "fixed" || d.kind == "cycle" ) {
        if( d.sizes.empty() ) {
            return want;
        }
        n = d.sizes[d.pos % d.sizes.size()];
        d.pos++;
    } else if( d.kind == "rand" ) {
        n = 1 + ( long )( splitmix( d.rng ) % ( uint64_t )d.maxn );
    }
    if( n > want ) {
        n = want;
    }
    if( n < 1 ) {
        n = 1;
    }
    return n;
}

} // namespace sim

extern "C" {
    ssize_t __real_read( int fd, void * buf, size_t n );
    FILE * __real_fopen64( const char * path, const char * mode );
    int __real_fclose( FILE * f );
    time_t __real_time( time_t * t );

    FILE * __wrap_fopen64( const char * path, const char * mode ) {
        FILE * f = __real_fopen64( path, mode );
        if( f && mode && mode[0] == 'r' ) {
            int fd = fileno( f );
            struct stat st;
            if( fd >= 0 && fd < sim::MAXFD && fstat( fd, &st ) == 0 && S_ISREG( st.st_mode ) ) {
                sim::World & w = sim::world();
                if( !w.schedule.empty() ) {
                    size_t idx = w.opens < w.schedule.size() ? w.opens : w.schedule.size() - 1;
                    sim::g_fdstore[fd] = w.schedule[idx];
                    sim::g_fd[fd] = &sim::g_fdstore[fd];
                } else {
                    sim::g_fd[fd] = nullptr;
                }
                w.opens++;
            }
        }
        return f;
    }

    int __wrap_fclose( FILE * f ) {
        if( f ) {
            int fd = fileno( f );
            if( fd >= 0 && fd < sim::MAXFD ) {
                sim::g_fd[fd] = nullptr;
            }
        }
        return __real_fclose( f );
    }

    ssize_t __wrap_read( int fd, void * buf, size_t n ) {
        if( fd >= 0 && fd < sim::MAXFD && sim::g_fd[fd] && n > 0 ) {
            long k = sim::next_chunk( *sim::g_fd[fd], ( long )n );
            ssize_t r = __real_read( fd, buf, ( size_t )k );
            sim::World & w = sim::world();
            w.reads++;
            if( r > 0 ) {
                w.bytes += r;
            }
            if( ( size_t )k < n ) {
                w.short_reads++;
            }
            return r;
        }
        return __real_read( fd, buf, n );
    }

    time_t __wrap_time( time_t * t ) {
        sim::World & w = sim::world();
        w.clock_reads++;
        if( t ) {
            *t = ( time_t )w.clock;
        }
        return ( time_t )w.clock;
    }
}

namespace sim {

// a streambuf that swallows stepcode's chatter
class NullBuf : public std::streambuf {
        char buf[4096];
    protected:
        int overflow( int c ) override {
            setp( buf, buf + sizeof buf );
            return c == EOF ? 0 : c;
        }
        std::streamsize xsputn( const char *, std::streamsize n ) override {
            return n;
        }
};

static std::string read_line( FILE * f, bool & ok ) {
    std::string s;
    char buf[65536];
    ok = false;
    while( fgets( buf, sizeof buf, f ) ) {
        ok = true;
        s += buf;
        if( !s.empty() && s.back() == '\n' ) {
            s.pop_back();
            break;
        }
    }
    return s;
}

static void child_run( const J & plan, PlanFn fn, long cpu_ms ) {
    // stdin -> /dev/null, stdout -> /dev/null (stepcode prints through stdio in places)
    int dn = open( "/dev/null", O_RDWR );
    if( dn >= 0 ) {
        dup2( dn, 0 );
        dup2( dn, 1 );
        if( dn > 2 ) {
            close( dn );
        }
    }
    static NullBuf nb1, nb2, nb3;
    std::cout.rdbuf( &nb1 );
    std::cerr.rdbuf( &nb2 );
    std::clog.rdbuf( &nb3 );
    setenv( "TZ", "UTC", 1 );
    tzset();

    long ms = plan.num( "cpu_ms", cpu_ms );
    struct itimerval it;
    memset( &it, 0, sizeof it );
    it.it_value.tv_sec = ms / 1000;
    it.it_value.tv_usec = ( ms % 1000 ) * 1000;
    {
        void * warm[4];
        backtrace( warm, 4 );   // loads the unwinder now, not inside the signal handler
    }
    struct sigaction sa;
    memset( &sa, 0, sizeof sa );
    sa.sa_handler = hs_handler;
    sigemptyset( &sa.sa_mask );
    sigaction( SIGVTALRM, &sa, 0 );
    setitimer( ITIMER_VIRTUAL, &it, 0 );
    struct rlimit rl;
    rl.rlim_cur = rl.rlim_max = ( rlim_t )( ms / 1000 + 5 );
    setrlimit( RLIMIT_CPU, &rl );
    long stack_kb = plan.num( "stack_kb", 0 );
    ( void )stack_kb;

    // an exception that escapes stepcode would std::terminate() a real application: record it as such
    std::set_terminate( []() {
        std::string what = "unknown";
        try {
            std::exception_ptr ep = std::current_exception();
            if( ep ) {
                std::rethrow_exception( ep );
            }
        } catch( std::exception & e ) {
            what = e.what();
        } catch( ... ) {
        }
        Obs o;
        o.k( "uncaught_exception", what );
        emit( o );
        _exit( 96 );
    } );
    fn( plan );
    World & w = world();
    Obs o;
    o.k( "done", 1 ).k( "io_opens", ( long long )w.opens ).k( "io_reads", ( long long )w.reads ).k( "io_bytes", ( long long )w.bytes )
    .k( "io_short", ( long long )w.short_reads ).k( "clock_reads", ( long long )w.clock_reads );
    emit( o );
    _exit( 0 );
}

static int rm_cb( const char * path, const struct stat *, int, struct FTW * ) {
    return remove( path );
}
static void rm_rf( const std::string & dir ) {
    if( !dir.empty() ) {
        nftw( dir.c_str(), rm_cb, 16, FTW_DEPTH | FTW_PHYS );
    }
}
// the simulated disk of one plan: a private directory, removed when the plan is done
static std::string make_plan_dir() {
    const char * t = getenv( "TMPDIR" );
    std::string tmpl = std::string( ( t && *t ) ? t : "/tmp" ) + "/verif-sim.XXXXXX";
    std::vector<char> b( tmpl.begin(), tmpl.end() );
    b.push_back( 0 );
    if( !mkdtemp( b.data() ) ) {
        return "";
    }
    return std::string( b.data() );
}

static void put( const std::string & s ) {
    fwrite( s.data(), 1, s.size(), stdout );
}

int server_main( int argc, char ** argv, PlanFn fn, long cpu_ms_default ) {
    if( argc >= 3 && !strcmp( argv[1], "--one" ) ) {
        // debugging aid: run one plan in this very process (gdb, valgrind)
        std::ifstream in( argv[2] );
        std::string text( ( std::istreambuf_iterator<char>( in ) ), std::istreambuf_iterator<char>() );
        JP plan = parse( text );
        g_obs_fd = 1;
        int keep = dup( 1 );
        g_obs_fd = keep;
        std::string dir = make_plan_dir();
        if( dir.empty() || chdir( dir.c_str() ) ) {
            perror( "plan dir" );
            return 3;
        }
        fprintf( stderr, "plan dir (left in place for inspection): %s\n", dir.c_str() );
        child_run( *plan, fn, cpu_ms_default );
        return 0;
    }
    signal( SIGPIPE, SIG_IGN );
    for( ;; ) {
        bool ok;
        std::string line = read_line( stdin, ok );
        if( !ok ) {
            break;
        }
        if( line.empty() ) {
            continue;
        }
        JP plan;
        try {
            plan = parse( line );
        } catch( std::exception & e ) {
            put( "E {\"end\":\"badplan\",\"what\":" + jq( e.what() ) + "}\n" );
            fflush( stdout );
            continue;
        }
        int po[2], pe[2];
        if( pipe( po ) || pipe( pe ) ) {
            perror( "pipe" );
            return 3;
        }
        fflush( stdout );
        std::string dir = make_plan_dir();
        if( dir.empty() ) {
            perror( "mkdtemp" );
            return 3;
        }
        pid_t pid = fork();
        if( pid < 0 ) {
            perror( "fork" );
            return 3;
        }
        if( pid == 0 ) {
            close( po[0] );
            close( pe[0] );
            dup2( pe[1], 2 );
            close( pe[1] );
            g_obs_fd = po[1];
            if( chdir( dir.c_str() ) ) {
                _exit( 97 );
            }
            child_run( *plan, fn, cpu_ms_default );
            _exit( 0 );
        }
        close( po[1] );
        close( pe[1] );
        std::string obs, err;
        long wall_ms = plan->num( "wall_ms", 120000 );
        struct timespec t0;
        clock_gettime( CLOCK_MONOTONIC, &t0 );
        bool killed = false;
        struct pollfd pf[2];
        pf[0].fd = po[0];
        pf[0].events = POLLIN;
        pf[1].fd = pe[0];
        pf[1].events = POLLIN;
        int open_n = 2;
        char buf[65536];
        while( open_n > 0 ) {
            struct timespec t1;
            clock_gettime( CLOCK_MONOTONIC, &t1 );
            long el = ( t1.tv_sec - t0.tv_sec ) * 1000 + ( t1.tv_nsec - t0.tv_nsec ) / 1000000;
            long left = wall_ms - el;
            if( left <= 0 ) {
                if( !killed ) {
                    kill( pid, SIGKILL );
                    killed = true;
                }
                left = 1000;
            }
            int r = poll( pf, 2, ( int )left );
            if( r < 0 ) {
                if( errno == EINTR ) {
                    continue;
                }
                break;
            }
            for( int k = 0; k < 2; k++ ) {
                if( pf[k].fd >= 0 && ( pf[k].revents & ( POLLIN | POLLHUP | POLLERR ) ) ) {
                    ssize_t n = ::read( pf[k].fd, buf, sizeof buf );
                    if( n > 0 ) {
                        if( k == 0 ) {
                            obs.append( buf, n );
                        } else {
                            err.append( buf, n );
                            if( err.size() > ( 1 << 18 ) ) {
                                err.erase( 0, err.size() - ( 1 << 17 ) );
                            }
                        }
                    } else if( n == 0 || ( n < 0 && errno != EINTR && errno != EAGAIN ) ) {
                        close( pf[k].fd );
                        pf[k].fd = -1;
                        open_n--;
                    }
                }
            }
        }
        int st = 0;
        struct rusage ru;
        memset( &ru, 0, sizeof ru );
        wait4( pid, &st, 0, &ru );
        rm_rf( dir );
        long cpu_us = ru.ru_utime.tv_sec * 1000000L + ru.ru_utime.tv_usec + ru.ru_stime.tv_sec * 1000000L + ru.ru_stime.tv_usec;
        Obs e;
        if( killed ) {
            e.k( "end", "wall" );
        } else if( WIFSIGNALED( st ) ) {
            int sg = WTERMSIG( st );
            if( sg == SIGVTALRM || sg == SIGXCPU || sg == SIGKILL ) {
                e.k( "end", "cpu" ).k( "sig", sg );
            } else {
                e.k( "end", "signal" ).k( "sig", sg );
            }
        } else {
            int ec = WEXITSTATUS( st );
            if( ec == 0 ) {
                e.k( "end", "ok" );
            } else if( ec == 77 ) {
                e.k( "end", "asan" );
            } else if( ec == 78 ) {
                e.k( "end", "ubsan" );
            } else if( ec == 95 ) {
                e.k( "end", "cpu" ).k( "sig", 0 );
            } else if( ec == 96 ) {
                e.k( "end", "exception" );
            } else if( ec == 98 || ec == 97 ) {
                e.k( "end", "harness" );
            } else {
                e.k( "end", "exit" ).k( "code", ec );
            }
        }
        e.k( "cpu_us", ( long long )cpu_us );
        if( err.size() > 73728 ) {
            // keep head (sanitizer summary line and the innermost ~200 frames are at the top) and tail
            err = err.substr( 0, 65536 ) + "\n...\n" + err.substr( err.size() - 4096 );
        }
        e.k( "stderr", err );
        put( obs );
        if( !obs.empty() && obs.back() != '\n' ) {
            put( "\n" );
        }
        put( "E " + e.str() + "\n" );
        fflush( stdout );
    }
    return 0;
}

} // namespace sim
