// mgrsim — applies an operation history to a real InstMgr and dumps its complete
// observable state after every operation.  No oracle logic here.
#include "simexec.h"

#include "clstepcore/sdai.h"
#include "clstepcore/instmgr.h"
#include "clstepcore/Registry.h"
#include "cleditor/SdaiSchemaInit.h"

#include <sstream>
#include <set>

using namespace sim;

static const char * ENTS[] = { "File_Name", "File_Schema", "File_Description", "Section_Language", "Section_Context", "File_Population" };
static const int NENTS = 6;

struct Ctx {
    Registry * reg;
    InstMgr * mgr;
    std::vector<SDAI_Application_instance *> h; // handle -> instance (null when freed / never made)
    std::map<SDAI_Application_instance *, int> rev;
    std::vector<long> probe_ids;
    std::vector<std::string> probe_names;
};

static int handle_of( Ctx & c, SDAI_Application_instance * se ) {
    if( !se || se == ENTITY_NULL ) {
        return -1;
    }
    auto it = c.rev.find( se );
    return it == c.rev.end() ? -2 : it->second;
}

static void dump( Ctx & c, Obs & o ) {
    InstMgr & m = *c.mgr;
    int n = m.InstanceCount();
    o.k( "count", n ).k( "max", m.MaxFileId() );
    std::ostringstream a;
    a << "[";
    for( int i = 0; i < n; i++ ) {
        MgrNode * mn = m.GetMgrNode( i );
        if( i ) {
            a << ",";
        }
        if( !mn ) {
            a << "null";
            continue;
        }
        SDAI_Application_instance * se = m.GetApplication_instance( i );
        a << "{\"h\":" << handle_of( c, se )
          << ",\"hn\":" << handle_of( c, mn->GetApplication_instance() )
          << ",\"id\":" << mn->GetFileId()
          << ",\"ent\":" << jq( se ? se->EntityName() : "" )
          << ",\"state\":" << ( int )mn->CurrState()
          << ",\"idx\":" << m.GetIndex( mn ) << "}";
    }
    a << "]";
    o.raw( "list", a.str() );
    std::ostringstream f;
    f << "{";
    bool first = true;
    for( long id : c.probe_ids ) {
        MgrNode * mn = m.FindFileId( ( int )id );
        if( !first ) {
            f << ",";
        }
        first = false;
        f << "\"" << id << "\":" << ( mn ? handle_of( c, mn->GetApplication_instance() ) : -1 );
    }
    f << "}";
    o.raw( "find", f.str() );
    std::ostringstream nm;
    nm << "{";
    first = true;
    for( auto & name : c.probe_names ) {
        if( !first ) {
            nm << ",";
        }
        first = false;
        nm << jq( name ) << ":{\"kc\":" << m.EntityKeywordCount( name.c_str() ) << ",\"from\":[";
        for( int s = 0; s < n && n <= 64; s++ ) {
            if( s ) {
                nm << ",";
            }
            nm << handle_of( c, m.GetApplication_instance( name.c_str(), s ) );
        }
        nm << "]}";
    }
    nm << "}";
    o.raw( "names", nm.str() );
}

static void run_plan( const J & plan ) {
    Ctx c;
    c.reg = new Registry( HeaderSchemaInit );
    c.mgr = new InstMgr( ( int )plan.num( "owns", 0 ) );
    for( auto & p : plan.arr( "probe_ids" ) ) {
        c.probe_ids.push_back( ( long )p->i );
    }
    for( auto & p : plan.arr( "probe_names" ) ) {
        c.probe_names.push_back( p->s );
    }
    int step = 0;
    for( auto & opp : plan.arr( "ops" ) ) {
        const J & op = *opp;
        std::string k = op.str( "op" );
        Obs o;
        o.k( "step", step++ ).k( "op", k );
        InstMgr & m = *c.mgr;
        if( k == "new" ) {
            int h = ( int )op.num( "h" );
            std::string ent = op.str( "ent", "File_Name" );
            SDAI_Application_instance * se = c.reg->ObjCreate( ent.c_str() );
            if( !se || se == ENTITY_NULL ) {
                o.k( "error", "ObjCreate failed" );
            } else {
                se->StepFileId( ( int )op.num( "id", 0 ) );
                if( ( int )c.h.size() <= h ) {
                    c.h.resize( h + 1, nullptr );
                }
                c.h[h] = se;
                c.rev[se] = h;
            }
        } else if( k == "bulk" ) {
            // n fresh instances with unassigned ids, appended one after the other (array growth path)
            int h0 = ( int )op.num( "h0" );
            int cnt = ( int )op.num( "n" );
            std::string ent = op.str( "ent", "File_Name" );
            if( ( int )c.h.size() < h0 + cnt ) {
                c.h.resize( h0 + cnt, nullptr );
            }
            std::ostringstream ids;
            ids << "[";
            for( int q = 0; q < cnt; q++ ) {
                SDAI_Application_instance * se = c.reg->ObjCreate( ent.c_str() );
                se->StepFileId( 0 );
                c.h[h0 + q] = se;
                c.rev[se] = h0 + q;
                m.Append( se, completeSE );
                ids << ( q ? "," : "" ) << se->StepFileId();
            }
            ids << "]";
            o.raw( "ids_after", ids.str() );
        } else if( k == "append" ) {
            int h = ( int )op.num( "h" );
            SDAI_Application_instance * se = c.h.at( h );
            MgrNode * mn = m.Append( se, ( stateEnum )op.num( "state", completeSE ) );
            o.kb( "ret_node", mn != 0 ).k( "id_after", se->StepFileId() );
        } else if( k == "delete_node_at" ) {
            int i = ( int )op.num( "i" );
            MgrNode * mn = m.GetMgrNode( i );
            SDAI_Application_instance * se = mn->GetApplication_instance();
            int h = handle_of( c, se );
            m.Delete( mn );   // frees node and instance
            if( h >= 0 ) {
                c.h[h] = nullptr;
            }
            c.rev.erase( se );
            o.k( "freed", h );
        } else if( k == "delete_inst" ) {
            int h = ( int )op.num( "h" );
            SDAI_Application_instance * se = c.h.at( h );
            m.Delete( se );
            c.h[h] = nullptr;
            c.rev.erase( se );
            o.k( "freed", h );
        } else if( k == "change_state" ) {
            int i = ( int )op.num( "i" );
            m.ChangeState( m.GetMgrNode( i ), ( stateEnum )op.num( "state", completeSE ) );
        } else if( k == "clear" ) {
            m.ClearInstances();
        } else if( k == "delete_all" ) {
            std::set<SDAI_Application_instance *> gone;
            int n = m.InstanceCount();
            for( int i = 0; i < n; i++ ) {
                gone.insert( m.GetApplication_instance( i ) );
            }
            m.DeleteInstances();
            for( auto se : gone ) {
                int h = handle_of( c, se );
                if( h >= 0 ) {
                    c.h[h] = nullptr;
                }
                c.rev.erase( se );
            }
        } else if( k == "next_id" ) {
            o.k( "ret", m.NextFileId() );
        } else if( k == "get_index_inst" ) {
            // GetIndex(SDAI_Application_instance*) is declared but not defined in the library; use the node route
            int h = ( int )op.num( "h" );
            MgrNode * mn = m.FindFileId( c.h.at( h )->StepFileId() );
            o.k( "ret", mn ? m.GetIndex( mn ) : -1 );
        } else if( k == "verify" ) {
            o.k( "ret", m.VerifyEntity( ( int )op.num( "id" ), op.str( "ent" ).c_str() ) );
        } else if( k == "noop" ) {
        } else {
            o.k( "error", "unknown op" );
        }
        dump( c, o );
        emit( o );
    }
    // tear down: the manager frees what it owns; we free the rest
    std::set<SDAI_Application_instance *> in_mgr;
    int n = c.mgr->InstanceCount();
    for( int i = 0; i < n; i++ ) {
        in_mgr.insert( c.mgr->GetApplication_instance( i ) );
    }
    bool owns = c.mgr->OwnsInstances();
    delete c.mgr;
    int freed = 0;
    for( auto se : c.h ) {
        if( se && !( owns && in_mgr.count( se ) ) ) {
            delete se;
            freed++;
        }
    }
    Obs o;
    o.k( "teardown", 1 ).k( "freed_by_harness", freed );
    emit( o );
}

int main( int argc, char ** argv ) {
    ( void )ENTS;
    ( void )NENTS;
    return server_main( argc, argv, run_plan, 5000 );
}
