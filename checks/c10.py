"""C10 — the lazy loader sees the same file as the eager reader.

Simulated dimension: the HISTORY of calls on one lazyInstMgr after openFile — which instance is
loaded when, repeated loads, dependency and table queries in between.  The loader keeps one
shared file cursor and re-enters itself for every reference, so order and nesting of the loads
are the schedule; the delivery schedule of the underlying read(2) calls is seeded too.
Reference: the population model (tables) and the eager reader running in the same process (texts).
"""
import copy

from simlib import core, p21model as pm, p21work as pw
from simlib.driver import list_removals


def closure(fwd, start):
    seen = set()
    todo = list(fwd.get(start, ()))
    while todo:
        x = todo.pop()
        if x in seen:
            continue
        seen.add(x)
        todo.extend(fwd.get(x, ()))
    return seen


class C10(pw.P21Check):
    prop = "C10"
    level = "exploration"
    label = "c10"
    feature_overrides = {"renamed_select": False, "renamed_enum": False, "optional_elems": False, "inverse": False}
    rule = ("plan = conforming file (generator of C01, biased to references: chains, diamonds, cycles and self references, complex instances, strings and "
            "comments containing '#', '(' and ';', sparse ids) x a seeded history of lazy-loader calls after openFile {loadInstance(id) incl. repeats and "
            "unknown order, instanceDependencies(id), table dumps, typeFromFile(id)} x delivery schedule. Oracle: index, forward table, reverse table = "
            "transpose, dependency closure, and STEPwrite text of every loaded instance equal to the eager reader's, tables unchanged by loading. "
            "non-trivial = >= 2 instances, >= 1 reference and >= 2 loads; distinct = hash(schema, reference-graph shape class, load order pattern)")
    components_real = ["lazyInstMgr", "lazyFileReader / lazyP21DataSectionReader / sectionReader", "instMgrAdapter", "judy arrays", "SDAI_Application_instance::STEPread via the adapter",
                       "STEPfile eager reader (reference)", "generated schema library"]
    components_stubbed = ["read(2) byte count (delivery schedule)"]
    assumptions = ["schemas of this check have no INVERSE attributes (those are C11's batch)",
                   "the eager reader is the reference for instance texts; C01 checks the eager reader itself"]
    sizes = [2, 3, 4, 6, 9, 14]
    with_inverse = False

    def n_plans(self, tier):
        return 16000 if tier == "quick" else 200000

    def time_budget(self, tier):
        return 150 if tier == "quick" else 1500

    # ------------------------------------------------------------ generator
    def gen(self, seed, i, tier):
        r = core.rng(seed, self.prop, i)
        nbase = 330 if tier == "quick" else 3000
        plan = self.base_plan(seed, r.randrange(nbase), popts={"ids": r.choice(["dense", "sparse", "scattered"]), "rich_strings": True})
        ids = [x["id"] for x in plan["model"]["insts"]]
        hist = []
        n = r.choice([1, 2, 3, 5, 8, 12])
        order = list(ids)
        mode = r.choice(["file-order", "reverse", "shuffled", "repeats"])
        if mode == "reverse":
            order.reverse()
        elif mode != "file-order":
            r.shuffle(order)
        k = 0
        for _ in range(n):
            c = r.random()
            if c < 0.6 and order:
                iid = order[k % len(order)] if mode != "repeats" else r.choice(order)
                k += 1
                hist.append({"op": "load", "id": iid})
            elif c < 0.75 and ids:
                hist.append({"op": "deps", "id": r.choice(ids)})
            elif c < 0.9:
                hist.append({"op": "tables"})
            elif ids:
                hist.append({"op": "type", "id": r.choice(ids)})
        plan["history"] = hist
        plan["delivery"] = pw.gen_delivery(r, 1) if r.random() < 0.4 else [{"kind": "whole"}]
        return self.finish(plan)

    def finish(self, plan):
        plan = dict(plan)
        text, rn = self.render_model(plan["model"], plan["render"])
        plan["render"] = rn
        plan["files"] = {"a.p21": text}
        ids = set(x["id"] for x in plan["model"]["insts"])
        plan["history"] = [h for h in plan["history"] if h.get("id") is None or h["id"] in ids]
        return plan

    # ------------------------------------------------------------------ run
    def ops_for(self, plan):
        ids = [x["id"] for x in plan["model"]["insts"]]
        names = sorted(set(p["ent"] for x in plan["model"]["insts"] if len(x["parts"]) == 1 for p in x["parts"])) + [""]
        tables = {"op": "lazy_tables", "ids": ids, "typenames": names}
        ops = [{"op": "read", "file": "a.p21"}, {"op": "dump"},
               {"op": "lazy_open", "file": "a.p21", "delivery": plan["delivery"]}, dict(tables)]
        for h in plan["history"]:
            if h["op"] == "load":
                ops.append({"op": "lazy_load", "id": h["id"], "inverse": 1 if self.with_inverse else 0, "delivery": plan["delivery"]})
            elif h["op"] == "deps":
                ops.append({"op": "lazy_deps", "id": h["id"]})
            elif h["op"] == "tables":
                ops.append(dict(tables))
            elif h["op"] == "type":
                ops.append({"op": "lazy_type", "id": h["id"]})
        ops.append(dict(tables))
        return ops

    def run(self, plan):
        exe = self.exe(plan)
        # teardown of a half-loaded lazy manager is not part of the property: skip destructors
        main = pw.run_plan(exe, {"files": plan["files"], "ops": self.ops_for(plan), "teardown": 0, "cpu_ms": 6000})
        return {"main": main}

    def harness_error(self, plan, obs):
        return pw.exec_harness_error(obs["main"])

    # ---------------------------------------------------------------- judge
    def model_tables(self, plan):
        insts = plan["model"]["insts"]
        fwd = {}
        for x in insts:
            fwd[x["id"]] = pm.inst_refs(x)
        rev = {}
        for a, rs in fwd.items():
            for b in rs:
                rev.setdefault(b, []).append(a)
        return fwd, rev

    def judge(self, plan, obs):
        main = obs["main"]
        out = []
        seen = set()

        def add(k, d):
            if k not in seen:
                seen.add(k)
                out.append({"class": k, "detail": d})
        steps = main["steps"]
        reads = pw.steps_by_op(main, "read")
        if not reads or reads[0].get("sev", 0) < 2:
            return []     # the eager reader does not accept the file: C01's business, nothing to compare with
        eager = {}
        for o in steps:
            if o.get("op") == "dump":
                eager = {g["id"]: g for g in o["pop"]}
                break
        insts = plan["model"]["insts"]
        fwd, rev = self.model_tables(plan)
        kw = {x["id"]: (x["parts"][0]["ent"] if len(x["parts"]) == 1 else "") for x in insts}
        loaded_text = {}
        first_tables = None
        for o in steps:
            op = o.get("op")
            if op == "lazy_open":
                if o.get("total") != len(insts):
                    add("C10/index/count", "lazy index has %s instances, the file has %d" % (o.get("total"), len(insts)))
            elif op == "lazy_tables":
                tkey = {"fwd": o["fwd"], "rev": o["rev"], "types": o["types"], "by_type": o["by_type"]}
                if first_tables is None:
                    first_tables = tkey
                    # (i) index
                    for iid, k in kw.items():
                        got = o["types"].get(str(iid))
                        if got is None:
                            add("C10/index/missing", "instance #%d is not in the lazy index" % iid)
                        elif k and got.upper() != k:
                            add("C10/index/keyword", "#%d indexed as %r, the file says %s" % (iid, got, k))
                    for name, idl in o["by_type"].items():
                        exp = sorted(i for i, k in kw.items() if k == name)
                        if sorted(idl) != exp:
                            add("C10/index/by-type", "getInstances(%r) = %s, expected %s" % (name, sorted(idl)[:12], exp[:12]))
                    # (ii) forward table: precisely the instances mentioned
                    for iid in kw:
                        got = sorted(set(o["fwd"].get(str(iid), [])))
                        exp = sorted(set(fwd.get(iid, [])))
                        if got != exp:
                            extra = sorted(set(got) - set(exp))
                            add("C10/fwd/%s" % ("extra" if extra else "missing"), "#%d forward refs %s, file mentions %s" % (iid, got[:12], exp[:12]))
                            break
                    # (iii) reverse table is the exact transpose of the forward table (multisets)
                    tr = {}
                    for a, rs in o["fwd"].items():
                        for b in rs:
                            tr.setdefault(str(b), []).append(int(a))
                    for b in set(list(tr) + list(o["rev"])):
                        if sorted(tr.get(b, [])) != sorted(o["rev"].get(b, [])):
                            add("C10/rev-not-transpose", "reverse refs of #%s are %s, transpose of the forward table gives %s" % (b, sorted(o["rev"].get(b, []))[:12], sorted(tr.get(b, []))[:12]))
                            break
                elif tkey != first_tables:
                    # (vi) tables unchanged by loading
                    ch = [k for k in tkey if tkey[k] != first_tables[k]]
                    add("C10/tables-changed-by-loading", "tables %s differ from the ones right after openFile" % ch)
        # walk history and lazy steps in parallel for per-call checks
        lsteps = [o for o in steps if o.get("op") in ("lazy_load", "lazy_deps", "lazy_type")]
        hist = [h for h in plan["history"] if h["op"] in ("load", "deps", "type")]
        for h, o in zip(hist, lsteps):
            iid = h["id"]
            if h["op"] == "deps":
                exp = closure(fwd, iid)    # R+ : contains #id itself only when #id lies on a reference cycle
                got = set(o.get("deps", []))
                if got != exp:
                    if iid in got and iid not in exp:
                        add("C10/deps/reflexive", "instanceDependencies(#%d) contains #%d itself although nothing leads back to it" % (iid, iid))
                    else:
                        add("C10/deps/closure", "instanceDependencies(#%d) = %s, closure of the forward table = %s" % (iid, sorted(got)[:12], sorted(exp)[:12]))
            elif h["op"] == "type":
                k = kw.get(iid, "")
                if k and (o.get("type") or "").upper() != k:
                    add("C10/index/keyword", "typeFromFile(#%d) = %r, the file says %s" % (iid, o.get("type"), k))
            elif h["op"] == "load":
                if o.get("text") is None:
                    add("C10/load/null", "loadInstance(#%d) returned nothing" % iid)
                    continue
                e = eager.get(iid)
                if e is None:
                    continue
                if norm(o["text"]) != norm(e["text"]):
                    add("C10/load/differs-from-eager", "loadInstance(#%d) serialises as %r, the eagerly read instance as %r" % (iid, o["text"][:200], e["text"][:200]))
                if iid in loaded_text and loaded_text[iid] != o["text"]:
                    add("C10/load/repeat-differs", "second loadInstance(#%d) gives %r, the first gave %r" % (iid, o["text"][:160], loaded_text[iid][:160]))
                loaded_text[iid] = o["text"]
        ec = core.end_class(main["end"])
        if ec:
            last = [o.get("op") for o in steps if "op" in o][-1:]
            add("C10/abnormal-end/" + ec, "after steps ending in %s: %s" % (last, (main["end"].get("stderr") or "")[:700]))
        return out

    # ------------------------------------------------------------- features
    def features(self, plan, obs):
        fwd, rev = self.model_tables(plan)
        ids = [x["id"] for x in plan["model"]["insts"]]
        cyc = sum(1 for i in ids if i in closure(fwd, i))
        selfref = sum(1 for i in ids if i in fwd.get(i, []))
        loads = [h["id"] for h in plan["history"] if h["op"] == "load"]
        done = [o for o in obs["main"]["steps"] if "done" in o]
        graph = "cyclic" if cyc else ("refs" if any(fwd.values()) else "flat")
        return {"shape": core.hash_obj([plan["schema"], graph, len(ids), [h["op"] for h in plan["history"]], len(set(loads)) < len(loads)]),
                "nontrivial": len(ids) >= 2 and any(fwd.values()) and len(loads) >= 2,
                "probes": {"instances_on_a_cycle": cyc, "self_references": selfref, "repeated_loads": len(loads) - len(set(loads)),
                           "complex_instances": sum(1 for x in plan["model"]["insts"] if len(x["parts"]) > 1),
                           "loads": len(loads), "deps_queries": sum(1 for h in plan["history"] if h["op"] == "deps"),
                           "hash_in_string": 1 if "#" in "".join(v[1] for x in plan["model"]["insts"] for p in x["parts"] for v in p["vals"] if v[0] == "str") else 0,
                           "apostrophe_after_page_directive": 1 if "\\S\\'" in "".join(v[1] for x in plan["model"]["insts"] for p in x["parts"] for v in p["vals"] if v[0] == "str") else 0},
                "faults": {}, "io": done[0]["io_reads"] if done else 0,
                "state": core.hash_obj([o.get("loaded") for o in obs["main"]["steps"] if o.get("op") == "lazy_load"])}

    def plan_features(self, plan):
        fwd, rev = self.model_tables(plan)
        ids = [x["id"] for x in plan["model"]["insts"]]
        f = []
        if any(i in closure(fwd, i) for i in ids):
            f.append("reference-cycle")
        if any(len(x["parts"]) > 1 for x in plan["model"]["insts"]):
            f.append("shape:complex")
        lines = pm.file_lines(plan["model"]["header"], plan["model"]["insts"])
        f += [x for x in pm.sep_features(lines, plan["render"].get("seps", {})) if not x.startswith("sep:")]
        f += pm.value_features(plan["model"]["insts"])
        return f

    def sample(self, plan, obs):
        return {"schema": plan["schema"], "ids": [x["id"] for x in plan["model"]["insts"]], "history": plan["history"][:12],
                "file_tail": plan["files"]["a.p21"][-400:], "end": obs["main"]["end"].get("end")}

    def shrink(self, plan):
        for keep in list_removals(plan["history"], 1):
            yield self.finish(dict(plan, history=keep))
        used = [h["id"] for h in plan["history"] if "id" in h]
        for c in self.shrink_model(plan, keep_ids=used):
            yield c


def norm(t):
    return "".join(t.split())


CHECK = C10()
