"""C03 — the reader never reports a schema-violating exchange file as clean; the damage is confined.

Fault model: exactly ONE record of an otherwise conforming stored file is made to violate the
schema or the Part 21 syntax (the 15 classes of the statement), at a seeded instance/attribute
position; the file is then read under a seeded delivery schedule.  The fault-free twin of every
plan is executed too: a plan whose twin is not clean says nothing about C03 and is not judged.
"""
import copy

from simlib import core, p21model as pm, p21work as pw
from simlib.driver import list_removals

KINDS = ["too-few-params", "too-many-params", "wrong-literal-kind", "unknown-keyword", "abstract-keyword",
         "undeclared-enum-item", "star-where-not-derived", "value-where-derived", "missing-required-aggregate",
         "dangling-reference", "wrong-typed-reference", "select-outside-list", "duplicate-id",
         "unterminated-instance", "unterminated-string", "wrong-element-kind"]
LEXICAL = ("unterminated-instance", "unterminated-string")

# several literals of a wrong kind per slot kind; which one is used is part of the seeded position
WRONG_LITERAL = {"int": [["str", "x"], ["real", "1.5"], ["enum", "T"], ["bin", "1F"], ["list", [["int", 1]]]],
                 "real": [["str", "x"], ["int", 5], ["enum", "T"], ["bin", "1F"]],
                 "number": [["str", "x"], ["enum", "T"], ["bin", "1F"]],
                 "string": [["int", 7], ["real", "2.5"], ["enum", "T"], ["bin", "1F"]],
                 "binary": [["real", "3.5"], ["str", "1F"], ["int", 3], ["enum", "T"]],
                 "bool": [["int", 7], ["str", "T"], ["real", "1."]], "logical": [["int", 7], ["str", "U"]],
                 "enum": [["int", 5], ["str", "x"], ["real", "1."]],
                 "ent": [["str", "x"], ["int", 3], ["enum", "T"], ["real", "1."]],
                 "agg": [["int", 7], ["str", "x"], ["enum", "T"]]}


class C03(pw.P21Check):
    prop = "C03"
    level = "fault_enumeration"
    label = "c03"
    rule = ("plan = conforming file (generator of C01, fault-free twin executed and required clean) with exactly one record corrupted by one of "
            "15 violation kinds " + ", ".join(KINDS) + " at a seeded (instance, part, attribute) position, read under a seeded delivery schedule. "
            "Oracle: (i) severity worse than a user message AND the p21read exit rule yields non-zero; (ii) every instance that is not the target, "
            "does not refer to it and - for the two lexical kinds - precedes it, is loaded with its file values. "
            "non-trivial = the corruption applied (the schema/population offers the construct) and the twin was clean; "
            "distinct = hash(schema, kind, slot type category, position class first/last/inside aggregate/complex part)")
    components_real = ["STEPfile two-pass reader", "SDAI_Application_instance::STEPread and value readers", "Registry::ObjCreate", "STEPcomplex", "generated schema library"]
    components_stubbed = ["read(2) byte count (delivery schedule)", "the one corrupted record written by the simulated producer"]
    assumptions = ["detection is computed with the expression of src/test/p21read/p21read.cc (severity <= SEVERITY_INCOMPLETE => exit 1)",
                   "reader leniencies documented in the statement's scope note (letter case, cardinality bounds, UNIQUE, WHERE) are not generated as violations",
                   "confinement is judged on the per-instance STEPwrite text of the loaded population"]
    sizes = [2, 3, 4, 6, 9]

    def n_plans(self, tier):
        return 20000 if tier == "quick" else 400000

    def time_budget(self, tier):
        return 150 if tier == "quick" else 1500

    # ------------------------------------------------------------ generator
    def gen(self, seed, i, tier):
        r = core.rng(seed, "C03", i)
        nbase = 330 if tier == "quick" else 3000
        plan = self.base_plan(seed, r.randrange(nbase))
        plan["kind"] = KINDS[i % len(KINDS)]
        plan["pos"] = {"inst": r.randint(0, 10 ** 6), "part": r.randint(0, 10 ** 6), "slot": r.randint(0, 10 ** 6), "elem": r.randint(0, 10 ** 6),
                       "other": r.randint(0, 10 ** 6)}
        plan["delivery"] = pw.gen_delivery(r, 2) if r.random() < 0.4 else [{"kind": "whole"}, {"kind": "whole"}]
        return self.finish(plan)

    def finish(self, plan):
        plan = dict(plan)
        text, rn = self.render_model(plan["model"], plan["render"])
        plan["render"] = rn
        sch = self.schema_of(plan)
        cm, info = corrupt(sch, plan["model"], plan["kind"], plan["pos"])
        plan["applied"] = info
        files = {"twin.p21": text}
        if cm is not None:
            lines = pm.file_lines(cm["header"], cm["insts"])
            # separators are keyed by line; keep the keys of the ORIGINAL records (a duplicated id must not make two
            # lines share separators) and never let a between-records comment slide inside the re-tokenised target record
            orig = pm.file_lines(plan["model"]["header"], plan["model"]["insts"])
            lines = [(ok, toks) for (ok, _), (_, toks) in zip(orig, lines)]
            tkey = "i%d" % info["target_id"]
            if info.get("raw_line"):
                # lexical kinds edit the rendered line of the target
                lines = [(k, info["raw_line"](toks) if k == tkey else toks) for k, toks in lines]
            # (comments before the record and at its head - after the instance name, after '=' - keep their place under every
            # structural corruption: a record the reader has to skip is skipped with its comments, whatever they contain)
            head_ok = not info.get("raw_line")
            seps = {k: v for k, v in rn["seps"].items()
                    if not (k.rsplit(":", 1)[0] == tkey and "/*" in v and not (head_ok and int(k.rsplit(":", 1)[1]) in (-1, 0, 1)))}
            files["bad.p21"] = pm.render(lines, seps, rn.get("eol", "\n"), rn.get("spell"))
            info = {k: v for k, v in info.items() if k != "raw_line"}
            plan["applied"] = info
        plan["files"] = files
        return plan

    # ------------------------------------------------------------------ run
    def run(self, plan):
        exe = self.exe(plan)
        d = plan["delivery"]
        twin = pw.run_plan(exe, {"files": {"a.p21": plan["files"]["twin.p21"]}, "ops": [{"op": "read", "file": "a.p21"}, {"op": "dump"}]})
        bad = None
        if "bad.p21" in plan["files"]:
            bad = pw.run_plan(exe, {"files": {"a.p21": plan["files"]["bad.p21"]},
                                    "ops": [{"op": "read", "file": "a.p21", "delivery": d}, {"op": "dump"}]})
        return {"twin": twin, "bad": bad}

    def harness_error(self, plan, obs):
        for k in ("twin", "bad"):
            if obs[k] is not None:
                e = pw.exec_harness_error(obs[k])
                if e:
                    return e
        try:
            parsed = pm.parse(plan["files"]["twin.p21"])
        except pm.P21SyntaxError as e:
            return "renderer produced text the independent parser rejects: %s" % e
        return pm.insts_self_check(plan["model"]["insts"], parsed["insts"])

    @staticmethod
    def twin_clean(obs):
        t = obs["twin"]
        reads = pw.steps_by_op(t, "read")
        return t["end"].get("end") == "ok" and reads and reads[0].get("sev") == 3

    # ---------------------------------------------------------------- judge
    def judge(self, plan, obs):
        if obs["bad"] is None or not self.twin_clean(obs):
            return []
        out = []
        info = plan["applied"]
        kind = plan["kind"]
        where = info.get("where", "")
        bad = obs["bad"]
        ec = core.end_class(bad["end"])
        if ec:
            # memory safety / termination belong to C05; for C03 an abnormal end is "not detected as an ordinary error"
            return [{"class": "C03/abnormal-end/%s" % kind, "detail": "%s: %s" % (ec, (bad["end"].get("stderr") or "")[:600])}]
        reads = pw.steps_by_op(bad, "read")
        rd = reads[0]
        tid = info["target_id"]
        # (i) detection
        if not (rd["below_usermsg"] == 1 and rd["p21read_exit"] == 1):
            out.append({"class": "C03/undetected/%s/%s" % (kind, where),
                        "detail": "violation '%s' at %s read with severity %d (p21read would exit %d): %s" % (
                            kind, info, rd["sev"], rd["p21read_exit"], target_line(plan, tid))})
        # (ii) confinement
        dumps = [o for o in bad["steps"] if o.get("op") == "dump"]
        pop = {x["id"]: x for x in (dumps[0]["pop"] if dumps else [])}
        insts = plan["model"]["insts"]
        tid = info["target_id"]
        suspects = set([tid] + info.get("also", []))
        tpos = [n for n, x in enumerate(insts) if x["id"] == tid][0]
        if kind in LEXICAL:
            # after an unterminated record/string the rest of the stream is not trustworthy: everything from the
            # target on is a suspect, and so is whoever refers to any of it
            suspects |= set(x["id"] for x in insts[tpos:])
        for n, m in enumerate(insts):
            if m["id"] in suspects:
                continue
            if any(ref in suspects for ref in pm.inst_refs(m)):
                continue
            g = pop.get(m["id"])
            if g is None:
                out.append({"class": "C03/not-confined/%s/lost-%s" % (kind, "following" if n > tpos else "preceding"),
                            "detail": "conforming instance #%d (%s the corrupted #%d) is not loaded" % (m["id"], "after" if n > tpos else "before", tid)})
                break
            d = pw.inst_diff(m, pw.parse_inst_text(g["text"]))
            if d:
                out.append({"class": "C03/not-confined/%s/altered-%s/%s" % (kind, "following" if n > tpos else "preceding", d[0]),
                            "detail": "conforming instance #%d changed although only #%d is corrupted: %s" % (m["id"], tid, d[1])})
                break
        return out

    # ------------------------------------------------------------- features
    def features(self, plan, obs):
        info = plan.get("applied") or {}
        applied = obs["bad"] is not None
        clean = self.twin_clean(obs)
        rd = (pw.steps_by_op(obs["bad"], "read") or [{}])[0] if applied else {}
        done = [o for o in (obs["bad"]["steps"] if applied else []) if "done" in o]
        probes = {"construct_unavailable": 0 if applied else 1, "twin_not_clean": 0 if clean else 1,
                  "target_in_complex_part": 1 if info.get("in_complex") else 0, "target_inside_aggregate": 1 if info.get("in_aggregate") else 0,
                  "target_last_slot": 1 if info.get("last_slot") else 0, "target_first_slot": 1 if info.get("first_slot") else 0,
                  "target_followed_by_instances": 1 if info.get("followers") else 0}
        tgt = [x for x in plan["model"]["insts"] if x["id"] == info.get("target_id")]
        tent = "+".join(p["ent"] for p in tgt[0]["parts"]) if tgt else None
        return {"shape": core.hash_obj([plan["schema"], plan["kind"], tent, info.get("where"), info.get("cat"), bool(info.get("followers")), pw.delivery_class(plan["delivery"])]),
                "nontrivial": applied and clean,
                "probes": probes, "faults": {"record-corrupt:" + plan["kind"]: 1} if applied else {}, "io": done[0]["io_reads"] if done else 0,
                "state": core.hash_obj([plan["kind"], rd.get("sev"), rd.get("insts")])}

    def plan_features(self, plan):
        info = plan.get("applied") or {}
        f = ["kind:" + plan["kind"], "where:" + str(info.get("where"))]
        if info.get("in_complex"):
            f.append("target-in-complex-part")
        if info.get("cat"):
            f.append("slot-type:" + info["cat"])
        if info.get("elem_depth", 0) >= 2 or info.get("nested_attr"):
            f.append("target-in-nested-aggregate")      # the value of an aggregate-of-aggregates attribute, at any depth below the top
        lines = pm.file_lines(plan["model"]["header"], plan["model"]["insts"])
        f += [x for x in pm.sep_features(lines, plan["render"].get("seps", {})) if not x.startswith("sep:")]
        return f

    def sample(self, plan, obs):
        rd = (pw.steps_by_op(obs["bad"], "read") or [{}])[0] if obs["bad"] else {}
        return {"schema": plan["schema"], "kind": plan["kind"], "applied": plan.get("applied"),
                "bad_file_data": (plan["files"].get("bad.p21") or "")[-500:], "read": {k: rd.get(k) for k in ("sev", "p21read_exit", "insts", "errors")}}

    # --------------------------------------------------------------- shrink
    def shrink(self, plan):
        info = plan.get("applied") or {}
        keep = [info["target_id"]] + info.get("also", []) + info.get("needs", []) if info.get("target_id") is not None else []
        for c in self.shrink_model(plan, keep_ids=keep):
            # the corruption must still land on the same record
            if (c.get("applied") or {}).get("target_id") == info.get("target_id") and (c["applied"] or {}).get("where") == info.get("where"):
                yield c


def target_line(plan, tid):
    import re
    m = re.search(r"^[ \t]*#%d\b[^\n]*" % tid, plan["files"].get("bad.p21", ""), re.M)
    return m.group(0)[:300] if m else ""


# ------------------------------------------------------------------------------
def corrupt(sch, model, kind, pos):
    """-> (corrupted model or None when the construct is not available, info dict)"""
    insts = model["insts"]
    if not insts:
        return None, {}
    cm = copy.deepcopy(model)
    ci = cm["insts"]
    ids = [x["id"] for x in insts]

    def slots_of(inst, part_idx):
        p = inst["parts"][part_idx]
        ent = [n for n in sch.order if n.upper() == p["ent"]]
        if not ent:
            return None
        ent = ent[0]
        sl = sch.internal_slots(ent) if len(inst["parts"]) == 1 else [(ent, a, False) for a in sch.own_slots(ent)]
        return sl if len(sl) == len(p["vals"]) else None

    # candidate positions (instance, part, slot) satisfying a predicate on (resolved type, value, derived flag)
    def candidates(pred):
        out = []
        for n, inst in enumerate(insts):
            for pi in range(len(inst["parts"])):
                sl = slots_of(inst, pi)
                if sl is None:
                    continue
                for si, ((owner, a, derived), v) in enumerate(zip(sl, inst["parts"][pi]["vals"])):
                    if pred(sch.resolve(a["type"]), a, v, derived):
                        out.append((n, pi, si))
        return out

    def pick(lst):
        if not lst:
            return None
        return lst[(pos["inst"] * 31 + pos["slot"]) % len(lst)]

    def info_for(n, pi=None, si=None, where=None, cat=None):
        inst = insts[n]
        d = {"target_id": inst["id"], "followers": n < len(insts) - 1, "in_complex": len(inst["parts"]) > 1}
        if pi is not None and si is not None:
            nv = len(inst["parts"][pi]["vals"])
            d["first_slot"] = si == 0
            d["last_slot"] = si == nv - 1
            d["where"] = where or ("complex-part" if d["in_complex"] else ("last" if si == nv - 1 else ("first" if si == 0 else "middle")))
        else:
            d["where"] = where or ("complex-part" if d["in_complex"] else "record")
        if cat:
            d["cat"] = cat
        return d

    def cat_of(a):
        return pm.type_category(sch, a["type"])

    if kind in ("too-few-params", "too-many-params"):
        # too-few: only parts with >= 2 values - dropping the only value leaves an *empty* value, which the library documents
        # as "unset" (accepted for OPTIONAL attributes, see C15), so it is not a violation this check may demand to be caught
        c = [(n, pi) for n, inst in enumerate(insts) for pi, p in enumerate(inst["parts"])
             if (len(p["vals"]) >= 2 or kind == "too-many-params")]
        if not c:
            return None, {}
        n, pi = c[(pos["inst"] + pos["part"]) % len(c)]
        if kind == "too-few-params":
            ci[n]["parts"][pi]["vals"].pop()
        else:
            ci[n]["parts"][pi]["vals"].append([["int", 1], ["null"], ["str", "x"], ["real", "1."], ["list", []]][pos["other"] % 5])
        return cm, info_for(n)
    if kind == "wrong-literal-kind":
        c = candidates(lambda t, a, v, d: not d and v[0] not in ("null", "derived") and t["k"] in WRONG_LITERAL and t["k"] != "select")
        p = pick(c)
        if not p:
            return None, {}
        n, pi, si = p
        sl = slots_of(insts[n], pi)
        t = sch.resolve(sl[si][1]["type"])
        alts = WRONG_LITERAL[t["k"]]
        ci[n]["parts"][pi]["vals"][si] = copy.deepcopy(alts[pos["other"] % len(alts)])
        return cm, info_for(n, pi, si, cat=cat_of(sl[si][1]))
    if kind == "wrong-element-kind":
        # "a parameter of the wrong literal kind" one or two levels down: an ELEMENT of an aggregate (of an aggregate) that is not of the
        # element type - a string among integers, a scalar where an inner aggregate is required
        c = candidates(lambda t, a, v, d: not d and t["k"] == "agg" and v[0] == "list" and v[1])
        p = pick(c)
        if not p:
            return None, {}
        n, pi, si = p
        sl = slots_of(insts[n], pi)
        cur_t = sch.resolve(sl[si][1]["type"])
        cur_v = ci[n]["parts"][pi]["vals"][si]
        depth = 0
        while True:
            et = sch.resolve(cur_t["elem"])
            k = pos["elem"] % len(cur_v[1])
            if et["k"] == "agg" and cur_v[1][k][0] == "list" and cur_v[1][k][1] and (pos["other"] // 7) % 3:
                cur_t, cur_v, depth = et, cur_v[1][k], depth + 1
                continue
            break
        if et["k"] not in WRONG_LITERAL or et["k"] == "select" or cur_v[1][k][0] in ("null", "typed"):
            return None, {}
        alts = WRONG_LITERAL[et["k"]]
        cur_v[1][k] = copy.deepcopy(alts[pos["other"] % len(alts)])
        info = info_for(n, pi, si, cat=cat_of(sl[si][1]))
        info["elem_depth"] = depth + 1
        info["nested_attr"] = sch.resolve(sch.resolve(sl[si][1]["type"])["elem"])["k"] == "agg"
        return cm, info
    if kind == "unknown-keyword":
        n = pos["inst"] % len(insts)
        pi = pos["part"] % len(insts[n]["parts"])
        kw = insts[n]["parts"][pi]["ent"]
        names = [e.upper() for e in sch.order]
        cands = ["NO_SUCH_ENTITY", kw + "X", kw[:-1], "X" + kw, kw + "_"]
        cands = [c for c in cands if c and c not in names and c[0].isalpha()]
        ci[n]["parts"][pi]["ent"] = cands[pos["other"] % len(cands)]
        return cm, info_for(n)
    if kind == "abstract-keyword":
        abstract = [e for e in sch.order if sch.ents[e].get("abstract")]
        simple = [n for n, inst in enumerate(insts) if len(inst["parts"]) == 1]
        if not abstract or not simple:
            return None, {}
        n = simple[pos["inst"] % len(simple)]
        a = abstract[pos["other"] % len(abstract)]
        nslots = len(sch.internal_slots(a))
        ci[n]["parts"][0]["ent"] = a.upper()
        ci[n]["parts"][0]["vals"] = [["null"]] * nslots     # arity of the abstract entity: only abstractness is at fault
        return cm, info_for(n)
    if kind == "undeclared-enum-item":
        c = candidates(lambda t, a, v, d: not d and v[0] == "enum" and t["k"] in ("enum", "bool", "logical"))
        p = pick(c)
        if not p:
            return None, {}
        n, pi, si = p
        t = sch.resolve(slots_of(insts[n], pi)[si][1]["type"])
        if t["k"] in ("bool", "logical"):
            # BOOLEAN and LOGICAL are enumerations of .T. .F. (.U.): the spelled-out words and the name of stepcode's internal
            # "unset" slot are not items, and .U. is not a BOOLEAN
            cands = ["UNSET", "UNSET", "UNKNOWN", "TRUE", "FALSE", "NOT_AN_ITEM", "TT", "X"] + (["U", "U"] if t["k"] == "bool" else [])
            ci[n]["parts"][pi]["vals"][si] = ["enum", cands[pos["other"] % len(cands)]]
            return cm, info_for(n, pi, si, cat="enum")
        declared = [x.upper() for x in t["items"]]
        others = [x.upper() for td in sch.sd["types"] if td["def"]["k"] == "enum" for x in td["def"]["items"] if x.upper() not in declared]
        cands = ["NOT_AN_ITEM"]
        for d in declared:
            cands += [d + "X", d + "_", "X" + d]
            for cut in (1, 2, len(d) // 2):
                if 0 < cut < len(d):
                    cands += [d[:-cut], d[cut:]]          # truncated forms of a declared item
        cands += others[:3]                                # an item of another enumeration of the schema
        cands = [c for c in cands if c and c not in declared and c[0].isalpha() and all(ch.isalnum() or ch == "_" for ch in c)]
        ci[n]["parts"][pi]["vals"][si] = ["enum", cands[pos["other"] % len(cands)]]
        return cm, info_for(n, pi, si, cat="enum")
    if kind == "star-where-not-derived":
        c = candidates(lambda t, a, v, d: not d)
        p = pick(c)
        if not p:
            return None, {}
        n, pi, si = p
        ci[n]["parts"][pi]["vals"][si] = ["derived"]
        return cm, info_for(n, pi, si, cat=cat_of(slots_of(insts[n], pi)[si][1]))
    if kind == "value-where-derived":
        c = candidates(lambda t, a, v, d: d)
        p = pick(c)
        if not p:
            return None, {}
        n, pi, si = p
        t = sch.resolve(slots_of(insts[n], pi)[si][1]["type"])
        ci[n]["parts"][pi]["vals"][si] = {"int": ["int", 3], "real": ["real", "2.5"], "string": ["str", "v"]}.get(t["k"], ["int", 3])
        return cm, info_for(n, pi, si, cat="derived")
    if kind == "missing-required-aggregate":
        c = candidates(lambda t, a, v, d: not d and t["k"] == "agg" and not a.get("optional"))
        p = pick(c)
        if not p:
            return None, {}
        n, pi, si = p
        ci[n]["parts"][pi]["vals"][si] = ["null"]
        return cm, info_for(n, pi, si, cat=cat_of(slots_of(insts[n], pi)[si][1]))
    if kind in ("dangling-reference", "wrong-typed-reference"):
        # a plain entity-typed slot, or an element of an aggregate of entity references
        c = candidates(lambda t, a, v, d: not d and ((t["k"] == "ent" and v[0] == "ref") or
                                                     (t["k"] == "agg" and sch.resolve(t["elem"])["k"] == "ent" and v[0] == "list" and v[1])))
        p = pick(c)
        if not p:
            return None, {}
        n, pi, si = p
        a = slots_of(insts[n], pi)[si][1]
        t = sch.resolve(a["type"])
        in_agg = t["k"] == "agg"
        want = (sch.resolve(t["elem"]) if in_agg else t)["name"]
        if kind == "dangling-reference":
            new = ["ref", max(ids) + 1000 + pos["other"] % 50]
            extra = {}
        else:
            wrong = [x["id"] for x in insts if x["id"] != insts[n]["id"] and
                     not any(want in sch.closure(e) for e in [q for q in sch.order if q.upper() in [pp["ent"] for pp in x["parts"]]])]
            if not wrong:
                return None, {}
            new = ["ref", wrong[pos["other"] % len(wrong)]]
            extra = {"needs": [new[1]]}
        if in_agg:
            k = pos["elem"] % len(insts[n]["parts"][pi]["vals"][si][1])
            ci[n]["parts"][pi]["vals"][si][1][k] = new
        else:
            ci[n]["parts"][pi]["vals"][si] = new
        d = info_for(n, pi, si, where="inside-aggregate" if in_agg else None, cat=cat_of(a))
        d["in_aggregate"] = in_agg
        d.update(extra)
        return cm, d
    if kind == "select-outside-list":
        c = candidates(lambda t, a, v, d: not d and t["k"] == "select" and v[0] != "null")
        p = pick(c)
        if not p:
            return None, {}
        n, pi, si = p
        ci[n]["parts"][pi]["vals"][si] = ["typed", "NOT_A_MEMBER_TYPE", ["int", 1]]
        return cm, info_for(n, pi, si, cat="select")
    if kind == "duplicate-id":
        if len(insts) < 2:
            return None, {}
        n = 1 + pos["inst"] % (len(insts) - 1)        # the later of the two records is the one that repeats an id
        other = pos["other"] % n
        ci[n]["id"] = insts[other]["id"]
        d = info_for(n)
        d["target_id"] = insts[n]["id"]
        d["also"] = [insts[other]["id"]]
        d["line_id"] = insts[other]["id"]
        return cm, d
    if kind == "unterminated-instance":
        n = pos["inst"] % len(insts)
        d = info_for(n)
        d["line_id"] = insts[n]["id"]
        variant = pos["other"] % 2

        def raw(toks):
            toks = list(toks)
            toks.pop()                    # the ';'
            if variant == 1 and toks and toks[-1][0] == ")":
                toks.pop()                # and the closing parenthesis
            return toks
        d["raw_line"] = raw
        d["where"] = "no-semicolon" if variant == 0 else "no-paren-no-semicolon"
        return cm, d
    if kind == "unterminated-string":
        c = candidates(lambda t, a, v, d: not d and v[0] == "str")
        p = pick(c)
        if not p:
            return None, {}
        n, pi, si = p
        d = info_for(n, pi, si, cat="string")
        d["line_id"] = insts[n]["id"]
        body = insts[n]["parts"][pi]["vals"][si][1]
        marker = "'" + body + "'"

        def raw(toks):
            out = []
            done = False
            for text, tt in toks:
                if not done and tt == "val" and text == marker:
                    out.append((text[:-1], tt))
                    done = True
                else:
                    out.append((text, tt))
            return out
        d["raw_line"] = raw
        return cm, d
    raise ValueError(kind)


CHECK = C03()
