"""C12 — generators and the pretty printer are deterministic functions of their input.

Simulated dimensions (all seeded, all replayable): address-space/heap/stack layout of the child
process (setarch -R base + LD_PRELOAD heap shim: placement, padding, fill and scribble bytes,
dirtied stack; load-address variant), environment (size, LC_ALL, EXPRESS_PATH), working directory
(name, depth), spelling of the input path (absolute, relative, ./, ../x/.., through a symlink),
clock, and run history (earlier runs of the same tool on the same schema in the same directory).
Oracle: the output tree of a perturbed run is byte-identical to the reference run's and the
exit status is the same.
"""
import os

from simlib import core, p21model as pm, p21work as pw, toolsim
from simlib.driver import CheckBase

TOOLS = ["exp2cxx", "exp2python", "exppp", "schema_scanner"]
BASE = {"heap_seed": 0, "env_pad": 0, "loader": "direct", "cwd_depth": 0, "cwd_name": "d", "path_style": "abs", "lc_all": "C",
        "express_path": 0, "clock": 1000000000, "prior_runs": 0, "env_vars": {}}


class C12(CheckBase):
    prop = "C12"
    level = "exploration"
    engine = "toolsim"
    rule = ("plan = (tool in {exp2cxx, exp2python, exppp, schema_scanner}) x (schema: shipped data/*.exp, hand-written kitchen sink, seeded generated "
            "schemas) x (one seeded perturbation record: heap seed for the LD_PRELOAD shim [placement, padding, fill byte, scribbled frees, dirtied stack], "
            "environment padding, loader variant, cwd name/depth, input path spelling, LC_ALL, EXPRESS_PATH, other environment variables (HOME, TMPDIR, LANG, USER, TZ, COLUMNS, ...), clock, 0..2 earlier runs in the same "
            "directory); the perturbed run's output tree and exit status are compared with the reference run (all dimensions at their base value); "
            "in addition no output file may contain the path of the directory the tool was built in. "
            "non-trivial = the reference run wrote >= 1 file and the perturbation differs from the base in >= 1 dimension; "
            "distinct = hash(tool, schema, set of perturbed dimensions)")
    components_real = ["exp2cxx", "exp2python", "exppp", "schema_scanner", "libexpress (plain build of /repo's working tree)", "glibc dynamic loader"]
    components_stubbed = ["malloc/free family and time() (LD_PRELOAD shim libsimheap.so)", "ASLR (off via setarch -R; variation re-introduced by seed)",
                          "process environment, working directory and path spelling (constructed per run)"]
    assumptions = ["a tool that fails (non-zero exit) on a schema in the reference run is still compared (same status, same partial tree required)",
                   "stdout/stderr are not part of the output tree (the scanner prints its output directory there by design)",
                   "two extra runs per (tool, schema) under real ASLR are a backstop only: a difference seen only there is reported as a machinery note, not as a violation, because it cannot be replayed"]

    def setup(self, tier):
        seed = getattr(self, "seed", None)
        if seed is None:
            seed = core.default_seed(tier)
        self.schemas = []      # (name, text)
        if getattr(self, "replay_mode", False):
            return
        shipped = toolsim.shipped_schemas()
        pick = [s for s in shipped if s[2] > 0]
        if tier == "quick":
            small = pick[:4]
            extra = [s for s in pick if s[0] in ("ap203",)]
            pick = small + [e for e in extra if e not in small]
        for name, path, size in pick:
            with open(path, "rb") as f:
                self.schemas.append((name, f.read().decode("latin-1")))
        from simlib import kitchen
        ks = kitchen.kitchen_sink()
        self.schemas.append((ks["name"], pm.emit_express(ks)))
        with open(os.path.join(os.path.dirname(os.path.dirname(os.path.abspath(__file__))), "simlib", "data", "algo_sink.exp"), "rb") as f:
            self.schemas.append(("algo_sink", f.read().decode("latin-1")))      # two schemas, functions/procedures/rules, renamed USE/REFERENCE
        for sd in pw.schema_defs(seed, tier, 2 if tier == "quick" else 10, label="c12", imported=False)[1:]:
            self.schemas.append((sd["name"], pm.emit_express(sd)))
        from simlib import exprgen
        for k in range(3 if tier == "quick" else 12):
            nm = "algo%d" % k
            self.schemas.append((nm, exprgen.gen_algo_schema(core.rng(seed, "C12", "algo", k), nm)))
        for t in TOOLS:
            toolsim.tool_path("plain", t)
        toolsim.shim()
        self._ref = {}

    def n_plans(self, tier):
        return 300 if tier == "quick" else 6000

    def time_budget(self, tier):
        return 170 if tier == "quick" else 1700

    def gen(self, seed, i, tier):
        r = core.rng(seed, "C12", i)
        tool = TOOLS[i % len(TOOLS)]
        name, text = self.schemas[(i // len(TOOLS)) % len(self.schemas)]
        pb = dict(BASE)
        dims = r.sample(sorted(k for k in BASE if k != "cwd_name"), r.choice([1, 1, 2, 3, 9]))
        for d in dims:
            if d == "heap_seed":
                pb[d] = r.randint(1, 10 ** 9)
            elif d == "env_pad":
                pb[d] = r.choice([1, 16, 777, 4096, 60000])
            elif d == "loader":
                pb[d] = "ldso"
            elif d == "cwd_depth":
                pb[d] = r.choice([1, 3])
                pb["cwd_name"] = r.choice(["x", "a b", "quite_a_long_directory_name", "d"])
            elif d == "path_style":
                pb[d] = r.choice(["rel", "dotrel", "updown", "symlink"])
            elif d == "lc_all":
                pb[d] = r.choice(["C.utf8", "POSIX"])
            elif d == "express_path":
                pb[d] = 1
            elif d == "clock":
                pb[d] = r.choice([0, 1, 2147483647, 4102444800])
            elif d == "prior_runs":
                pb[d] = r.choice([1, 2])
            elif d == "env_vars":
                pool = {"HOME": "/nonexistent", "TMPDIR": "<top>/tmp2", "LANG": "de_DE.UTF-8", "USER": "someone", "LOGNAME": "someone", "TZ": "Asia/Tokyo",
                        "COLUMNS": "40", "TERM": "dumb", "LC_NUMERIC": "de_DE.UTF-8", "POSIXLY_CORRECT": "1"}
                ks = r.sample(sorted(pool), r.randint(1, 4))
                pb[d] = {k: pool[k] for k in ks}
        return {"property": "C12", "tool": tool, "schema": name, "schema_text": text, "perturb": pb, "args": self.args_for(tool, r)}

    @staticmethod
    def args_for(tool, r):
        if tool == "exppp":
            return r.choice([[], ["-l", "60"], ["-t"]])
        return []

    def run(self, plan):
        key = (plan["tool"], plan["schema"], tuple(plan["args"]), core.hash_obj(plan["schema_text"]))
        ref = self._ref.get(key) if hasattr(self, "_ref") else None
        if ref is None:
            ref = toolsim.run_tool("plain", plan["tool"], plan["schema"], plan["schema_text"], BASE, args=plan["args"])
            if hasattr(self, "_ref"):
                self._ref[key] = ref
        got = toolsim.run_tool("plain", plan["tool"], plan["schema"], plan["schema_text"], plan["perturb"], args=plan["args"])
        return {"ref": slim(ref), "got": slim(got)}

    def judge(self, plan, obs):
        ref, got = obs["ref"], obs["got"]
        tool = plan["tool"]
        out = []
        if (ref["rc"], ref["sig"]) != (got["rc"], got["sig"]):
            out.append({"class": "C12/%s/exit-status-differs" % tool, "detail": "reference run ended rc=%s sig=%s, perturbed run rc=%s sig=%s; stderr tail: %s" % (
                ref["rc"], ref["sig"], got["rc"], got["sig"], got["stderr"][-300:])})
        if got.get("embeds_build_path"):
            out.append({"class": "C12/%s/embeds-build-path" % tool, "detail": "generated files name the directory the generator was built in (not a function of the schema): %s" % got["embeds_build_path"]})
        rt, gt = ref["tree"], got["tree"]
        if sorted(rt) != sorted(gt):
            only_r = sorted(set(rt) - set(gt))[:6]
            only_g = sorted(set(gt) - set(rt))[:6]
            out.append({"class": "C12/%s/file-set-differs" % tool, "detail": "files only in the reference run %s, only in the perturbed run %s" % (only_r, only_g)})
        else:
            diff = sorted(f for f in rt if rt[f] != gt[f])
            if diff:
                out.append({"class": "C12/%s/content-differs" % tool, "detail": "%d of %d files differ, e.g. %s" % (len(diff), len(rt), diff[:6])})
        return out

    def features(self, plan, obs):
        dims = sorted(k for k in BASE if plan["perturb"].get(k) != BASE[k] and k != "cwd_name")
        return {"shape": core.hash_obj([plan["tool"], plan["schema"], dims]),
                "nontrivial": obs["ref"]["n_files"] >= 1 and bool(dims),
                "probes": {"reference_run_failed": 1 if obs["ref"]["rc"] != 0 else 0, "files_compared": obs["ref"]["n_files"]},
                "faults": {"perturb:" + d: 1 for d in dims},
                "state": core.hash_obj([plan["tool"], plan["schema"], obs["got"]["rc"], sorted(obs["got"]["tree"].items())])}

    def plan_features(self, plan):
        dims = sorted(k for k in BASE if plan["perturb"].get(k) != BASE[k] and k != "cwd_name")
        return ["tool:" + plan["tool"], "schema:" + plan["schema"]] + ["perturb:" + d for d in dims]

    def sample(self, plan, obs):
        return {"tool": plan["tool"], "schema": plan["schema"], "perturb": plan["perturb"], "n_files": obs["ref"]["n_files"], "rc": obs["got"]["rc"]}

    def shrink(self, plan):
        pb = plan["perturb"]
        for k in sorted(BASE):
            if pb.get(k) != BASE[k]:
                yield dict(plan, perturb=dict(pb, **{k: BASE[k]}))
        if pb.get("heap_seed", 0) > 3:
            for s in (1, 2, 3):
                yield dict(plan, perturb=dict(pb, heap_seed=s))

    def extra_coverage(self, tier, results):
        return {"schemas": [n for n, _ in self.schemas], "tools": TOOLS}


def slim(o):
    return {"rc": o["rc"], "sig": o["sig"], "timed_out": o["timed_out"], "tree": o["tree"], "n_files": o["n_files"], "embeds_build_path": o.get("embeds_build_path", []),
            "stderr": o["stderr"][-600:], "prior_rcs": o["prior_rcs"]}


CHECK = C12()
