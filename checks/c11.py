"""C11 — inverse attributes resolved on load contain exactly the real referrers.

Same simulated dimensions as C10 (history of lazy-loader calls, delivery schedule); the schemas
of this batch declare INVERSE attributes (own and inherited, several onto the same or different
entities, SET/BAG and single valued, over plain and aggregate inverted attributes) and the
populations contain referrers of sibling types and referrers through other attributes.
"""
from simlib import core, p21model as pm, p21work as pw
from checks.c10 import C10, closure


class C11(C10):
    prop = "C11"
    label = "c11"
    pool = "c11"
    want_imported = staticmethod(lambda sd: any(e["inverse"] for e in sd["entities"]) and not any(iv.get("redecl") for e in sd["entities"] for iv in e["inverse"]))
    n_generated = {"quick": 6, "thorough": 24}
    with_inverse = True
    feature_overrides = {"renamed_select": False, "renamed_enum": False, "optional_elems": False, "inverse": True}
    rule = ("plan = schema with INVERSE attributes (seeded: 1..4 per schema, inherited ones, SET/BAG and single valued, over entity-valued and "
            "aggregate-of-entity attributes) x conforming population x seeded history of loadInstance calls x delivery schedule. Oracle after every load "
            "of a simple instance x: for every inverse attribute of x (own or inherited) declared `FOR a` over entity E, the ids it holds are exactly the "
            "instances of E (or subtypes) whose attribute a refers to x - none missing, none extra, none twice; instances that mention x only through "
            "another attribute are not included. non-trivial = the loaded instance has >= 1 inverse attribute and the file >= 1 real referrer; "
            "distinct = hash(schema, inverse attribute kinds, referrer layout, load order pattern)")
    components_real = ["lazyRefs (inverse resolver)", "lazyInstMgr", "SDAI_Application_instance inverse attribute map", "EntityDescriptor::InitIAttrs / superInvAttrIter", "generated schema library"]
    assumptions = ["an externally mapped instance keeps a copy of an inherited inverse attribute in several parts; the check judges one view per attribute (the first non-empty copy), not every copy",
                   "schemas of this batch always contain INVERSE attributes; C10 covers the loader without them"]

    def n_plans(self, tier):
        return 16000 if tier == "quick" else 200000

    def expected_inverse(self, plan, x):
        """{(owner entity lower, inverse name lower): sorted ids} for instance x (simple, or complex: every entity a part stands for)"""
        sch = self.schema_of(plan)
        insts = plan["model"]["insts"]
        covered = []
        for part in x["parts"]:
            pe = [e for e in sch.order if e.upper() == part["ent"]]
            for anc in (sch.closure(pe[0]) if pe else []):
                if anc not in covered:
                    covered.append(anc)
        out = {}
        for anc in covered:
            for iv in sch.ents[anc].get("inverse", []):
                holders = []
                # the inverted attribute is visible in E: declared by E itself or by one of its supertypes
                own = [c for c in sch.closure(iv["ent"]) if any(a_["name"] == iv["attr"] for a_ in sch.own_slots(c))]
                if not own:
                    continue
                own = own[0]
                for y in insts:
                    if len(y["parts"]) == 1:
                        ye = [e for e in sch.order if e.upper() == y["parts"][0]["ent"]]
                        if not ye or iv["ent"] not in sch.closure(ye[0]):
                            continue
                        slots = sch.internal_slots(ye[0])
                        vals = y["parts"][0]["vals"]
                    else:
                        if not any(p["ent"] == iv["ent"].upper() for p in y["parts"]):
                            continue
                        part = [p for p in y["parts"] if p["ent"] == own.upper()]
                        if not part:
                            continue
                        slots = [(own, a, False) for a in sch.own_slots(own)]
                        vals = part[0]["vals"]
                    for (owner, a, d), v in zip(slots, vals):
                        if owner == own and a["name"] == iv["attr"]:
                            if x["id"] in pm.refs_of(v, []):
                                holders.append(y["id"])
                if not iv.get("agg") and len(set(holders)) != 1:
                    # a single-valued inverse constrains the population to exactly one referrer; with none or several the file does
                    # not conform in that respect and the statement ("holds that one instance") does not say what the attribute holds
                    continue
                out[(anc.lower(), iv["name"].lower())] = sorted(set(holders))
        return out

    def judge(self, plan, obs):
        main = obs["main"]
        reads = pw.steps_by_op(main, "read")
        if not reads or reads[0].get("sev", 0) < 2:
            return []
        out = []
        seen = set()

        def add(k, d):
            if k not in seen:
                seen.add(k)
                out.append({"class": k, "detail": d})
        byid = {x["id"]: x for x in plan["model"]["insts"]}
        lsteps = [o for o in main["steps"] if o.get("op") in ("lazy_load", "lazy_deps", "lazy_type")]
        hist = [h for h in plan["history"] if h["op"] in ("load", "deps", "type")]
        for n, (h, o) in enumerate(zip(hist, lsteps)):
            if h["op"] != "load":
                continue
            x = byid[h["id"]]
            if o.get("text") is None:
                add("C11/load-null", "loadInstance(#%d) returned nothing" % x["id"])
                continue
            exp = self.expected_inverse(plan, x)
            got = {}
            for key, rec in (o.get("inverse") or {}).items():
                owner, _, name = key.partition(".")
                got[(owner.lower(), name.lower())] = rec
            first = "first-load" if n == 0 else "later-load"
            for key, ids in exp.items():
                g = got.get(key)
                if g is None:
                    add("C11/inverse-attribute-absent", "#%d has no inverse attribute %s.%s after loading" % (x["id"], key[0], key[1]))
                    continue
                gi = sorted(g["ids"])
                if gi == ids:
                    continue
                missing = sorted(set(ids) - set(gi))
                extra = sorted(set(gi) - set(ids))
                twice = sorted(set(i for i in gi if gi.count(i) > 1))
                what = "missing" if missing else ("extra" if extra else "twice")
                add("C11/%s/%s" % (what, first), "after loadInstance(#%d): %s.%s holds %s, real referrers through the inverted attribute are %s (missing %s, extra %s, twice %s)" % (
                    x["id"], key[0], key[1], gi, ids, missing, extra, twice))
        ec = core.end_class(main["end"])
        if ec:
            add("C11/abnormal-end/" + ec, (main["end"].get("stderr") or "")[:700])
        return out

    def features(self, plan, obs):
        f = C10.features(self, plan, obs)
        byid = {x["id"]: x for x in plan["model"]["insts"]}
        n_inv = 0
        n_ref = 0
        for h in plan["history"]:
            if h["op"] == "load":
                e = self.expected_inverse(plan, byid[h["id"]])
                n_inv += len(e)
                n_ref += sum(len(v) for v in e.values())
        f["nontrivial"] = n_inv > 0 and n_ref > 0
        f["probes"] = dict(f["probes"], inverse_attrs_on_loaded=n_inv, real_referrers=n_ref)
        return f


CHECK = C11()
