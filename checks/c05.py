"""C05 — reading and writing Part 21 is memory-safe and terminates on any input.

Simulated dimensions: storage faults on the stored file (torn write = EOF at an arbitrary
offset, flipped bytes, lost/duplicated/reordered tokens, adversarially stretched tokens,
parenthesis imbalance/nesting, illegal complex records), delivery schedule, and for working
session files the write->fault->read history.  Invariant over the run: the sanitizer-built
reader/writer ends normally within a virtual-CPU budget proportional to the input.
"""
import copy

from simlib import core, faults, p21model as pm, p21work as pw
from simlib.driver import CheckBase, list_removals


W2 = [{"kind": "whole"}, {"kind": "whole"}]


class C05(CheckBase):
    prop = "C05"
    level = "fault_enumeration"
    engine = "p21sim"
    rule = ("plan = conforming exchange file (generator of C01) or the working-session file stepcode itself writes from it, damaged by 1..2 "
            "seeded storage faults {truncate@k, flip/nul/hibit@k, token delete/duplicate/swap, stretch of a number/keyword/enum/string/binary/"
            "comment/reference to 40..10^5 characters, parenthesis insert/delete, nesting to 5000, complex record with up to 300 parts, illegal "
            "entity combinations} placed modulo the file's bytes/tokens, read under a seeded delivery schedule, then the resulting population is "
            "written. quick additionally enumerates EVERY truncation offset of one small file, thorough of every file <= 2 KiB it generates (reported "
            "under truncation_sweep). One plan in 625 is a SCALING pair ('time proportional to the input'): the records of a small population, fault-free or "
            "with one fault in every copy, are replicated K and 16K times with shifted ids (about 2000 and 32000 instances; in a third of the pairs it is one innermost parenthesised group inside a record that is repeated 8000 / 128000 times, with or without its comma, in a tenth a header entity) and the CPU cost of "
            "read+write is compared (minimum of two runs each; judged only when the small run costs >= 5 ms; the constant process start-up cost biases the ratio downwards): a ratio above 48 (3x the size ratio; "
            "measured 7..19 on the unchanged tree, 55..140 with an instance manager that scans on append) is C05/superlinear. non-trivial = the fault changed the bytes and the reader got past the file's first token; "
            "distinct = hash(schema, fault kinds + token class hit, delivery class, how the run ended)")
    components_real = ["STEPfile reader/writer incl. working-session paths", "generated schema library", "STEPcomplex matcher", "libstdc++ basic_filebuf"]
    components_stubbed = ["read(2) byte count (delivery schedule)", "time(2)", "stored bytes damaged by the simulated disk before the read"]
    assumptions = ["virtual CPU budget per run = 2 s + 100 us per input byte (>= 1000x the fault-free cost): only non-termination or a super-linear blow-up trips it",
                   "the scaling probe measures real CPU time of the sanitizer build (the only observation in this check that is not a pure function of the plan); the limit leaves a factor 2.5 above the largest linear ratio measured under load, and only clearly quadratic behaviour exceeds it",
                   "memory safety / UB as observed by gcc 12 AddressSanitizer + UndefinedBehaviorSanitizer (no MSan: uninstrumented libstdc++)",
                   "an exception escaping stepcode counts as abort (std::terminate in an application)"]

    n_generated = {"quick": 10, "thorough": 30}   # the shared pool of the file-based checks (p21work.P21Check.pool)

    def setup(self, tier):
        seed = getattr(self, "seed", None)
        if seed is None:
            seed = core.default_seed(tier)
        if getattr(self, "replay_mode", False):
            self.ss = pw.SchemaSet()
            return
        defs = pw.schema_defs(seed, tier, self.n_generated[tier], label="pool",
                              feature_overrides={"renamed_select": False, "renamed_enum": False, "optional_elems": False})
        self.ss = pw.build_schema_set(defs)
        if not self.ss.items:
            raise RuntimeError("no schema library could be built: %s" % self.ss.rejected)
        self.sweep_done = 0

    def n_plans(self, tier):
        return 25000 if tier == "quick" else 600000

    def time_budget(self, tier):
        return 170 if tier == "quick" else 1700

    SCALE_EVERY = 625
    SCALE_FAULTS = ["tok-del", "tok-dup", "tok-swap", "flip", "paren", "garble", "illegal-complex", "complex-parts"]
    SCALE_LIMIT = 3.0       # cost(16K copies) / cost(K copies) may be at most factor * SCALE_LIMIT (a purely quadratic path gives factor * 16)
    SWEEP = {"quick": 1, "thorough": 40}   # number of base files whose truncation offsets are enumerated completely

    # ------------------------------------------------------------ generator
    def base_plan(self, seed, j, tier):
        """the j-th fault-free base: schema, population, rendering"""
        r = core.rng(seed, "C05", "base", j)
        it = self.ss.items[j % len(self.ss.items)]
        popts = {"ids": r.choice(["dense", "sparse"]), "rich_strings": r.random() < 0.5, "complex": True, "max_insts": 12}
        insts = None
        for attempt in range(5):
            try:
                insts = pm.PopGen(core.rng(seed, "C05", "pop", j, attempt), it["schema"], popts).generate(r.choice([1, 2, 3, 5]))
                break
            except pm.Infeasible:
                pass
        return {"property": "C05", "schema": it["name"], "schema_def": it["sd"],
                "model": {"header": pm.default_header(core.rng(seed, "C05", "hdr", j), it["name"], rich=False), "insts": insts or []},
                "render": {"p_ws": r.choice([0, 0.1]), "p_cmt_between": r.choice([0, 0.2]), "p_cmt_in": 0, "sections": "hif", "spell": r.choice([None] * 6 + [{"id_pad": 4}, {"id_pad": 9, "plus_int": True}, {"id_pad": 25}, {"plus_int": True}, {"zero_pad": True}, {"zero_pad": True, "id_pad": 3}]), "eol": r.choice(["\n"] * 7 + ["", " ", "\r\n"]),
                           "seed": core.derive(seed, "C05", "render", j)},
                "working": r.random() < 0.3}

    def gen(self, seed, i, tier):
        r = core.rng(seed, "C05", i)
        nbase = 220 if tier == "quick" else 1500
        # the first plans of a batch are the exhaustive truncation sweep of SWEEP[tier] small base files
        sw = self.sweep_index(seed, i, tier)
        if sw is not None:
            j, k = sw
            plan = self.base_plan(seed, j, tier)
            plan["working"] = False
            plan["faults"] = [{"kind": "truncate", "at": k}]
            plan["delivery"] = W2
            plan["sweep"] = True
            return self.finish(plan)
        if i % self.SCALE_EVERY == 7:
            # scaling probe ("finishes in time proportional to the input"): the same small population, fault-free or with one
            # fault in every copy, replicated K and 8K times; the cost ratio is judged (see run/judge)
            plan = self.base_plan(seed, r.randrange(nbase), tier)
            plan["working"] = False
            plan["render"] = dict(plan["render"], p_ws=0, p_cmt_between=0, spell=None)
            names = [e["name"] for e in plan["schema_def"]["entities"]]
            plan["faults"] = [] if r.random() < 0.4 else [faults.gen_fault(r, kinds=self.SCALE_FAULTS, schema_names=names)]
            plan["delivery"] = W2
            plan["scale"] = {"small_insts": r.choice([1500, 2500]), "factor": 16}
            m = r.random()
            if m < 0.35:
                # growth INSIDE one record: an innermost parenthesised group (aggregate value, parameter list) repeated, with or without the comma
                plan["scale"].update(mode="inner", pick=r.randint(0, 10 ** 6), sep=r.choice([",", ",", "", " "]), deep=r.random() < 0.5)
            elif m < 0.45:
                # growth of the header: one header entity (or an unknown one) repeated
                plan["scale"].update(mode="header", pick=r.randint(0, 10 ** 6), unknown=r.random() < 0.5)
            return self.finish(plan)
        plan = self.base_plan(seed, r.randrange(nbase), tier)
        names = [e["name"] for e in plan["schema_def"]["entities"]]
        nf = 1 if r.random() < 0.7 else 2
        plan["faults"] = [faults.gen_fault(r, schema_names=names) for _ in range(nf)]
        plan["delivery"] = pw.gen_delivery(r, 2) if r.random() < 0.5 else W2
        return self.finish(plan)

    def sweep_index(self, seed, i, tier):
        """maps the first plan indices onto (base file j, truncation offset k); None past the sweep"""
        if not hasattr(self, "_sweep_sizes") or self._sweep_key != (seed, tier):
            sizes = []
            for j in range(self.SWEEP[tier]):
                p = self.finish(dict(self.base_plan(seed, j, tier), working=False, faults=[], delivery=W2))
                n = len(p["files"]["a.p21"])
                sizes.append(n if n <= 2048 else 0)
            self._sweep_sizes = sizes
            self._sweep_key = (seed, tier)
        off = i
        for j, n in enumerate(self._sweep_sizes):
            if off < n:
                return j, off
            off -= n
        return None

    @staticmethod
    def finish(plan):
        plan = dict(plan)
        lines = pm.file_lines(plan["model"]["header"], plan["model"]["insts"])
        rn = plan["render"]
        if "seps" not in rn:
            rn = dict(rn, seps=pm.gen_seps(core.rng(rn["seed"], "r"), lines, rn["p_ws"], rn["p_cmt_between"], rn["p_cmt_in"], rn["sections"]))
        ntok = {k: len(t) for k, t in lines}
        rn = dict(rn, seps={k: v for k, v in rn["seps"].items() if int(k.rsplit(":", 1)[1]) < ntok.get(k.rsplit(":", 1)[0], -1)})
        plan["render"] = rn
        plan["files"] = {"a.p21": pm.render(lines, rn["seps"], rn.get("eol", "\n"), rn.get("spell"))}
        return plan

    # ------------------------------------------------------------------ run
    @staticmethod
    def cpu_ms(nbytes):
        return 2000 + nbytes // 10

    @staticmethod
    def scaled_texts(plan):
        """-> (small, large, copies_small, where, fired) or None when the damaged unit has lost its section structure"""
        import re
        unit, fired, where = faults.apply_all(plan["files"]["a.p21"], plan["faults"])
        a = unit.find("DATA;")
        b = unit.rfind("ENDSEC;")
        if a < 0 or b < a + 5:
            return None
        head, body, tail = unit[:a + 5], unit[a + 5:b], unit[b:]
        sc = plan["scale"]
        if sc.get("mode") in ("inner", "header"):
            if sc["mode"] == "inner":
                groups = [m_ for m_ in re.finditer(r"\([^()']*\)", body)]
                if not groups:
                    return None
                if sc.get("deep"):
                    # prefer a group that sits inside another aggregate (an element of an aggregate of aggregates)
                    deep = [m_ for m_ in groups if body.count("(", body.rfind(";", 0, m_.start()) + 1, m_.start()) - body.count(")", body.rfind(";", 0, m_.start()) + 1, m_.start()) >= 2]
                    groups = deep or groups
                g = groups[sc["pick"] % len(groups)]
                pre, grp, post = head + body[:g.start()], g.group(0), body[g.end():] + tail
                sep = sc.get("sep", ",")
            else:
                hs = unit.find("HEADER;")
                he = unit.find("ENDSEC;")
                if hs < 0 or he < hs:
                    return None
                ents = [m_ for m_ in re.finditer(r"[A-Z_]+\((?:[^;']|'[^']*')*\);", unit[hs + 7:he])]
                if not ents:
                    return None
                g = ents[sc["pick"] % len(ents)]
                grp = "X();" if sc.get("unknown") else g.group(0)
                pre, post = unit[:hs + 7 + g.start()], unit[hs + 7 + g.start():]
                sep = "\n"
            k = max(200, sc["small_insts"] * 4)
            while k > 200 and (len(grp) + len(sep)) * k * sc["factor"] > 12 * 2 ** 20:
                k //= 2

            def rep(n):
                return pre + sep.join([grp] * n) + post
            return rep(k), rep(k * sc["factor"]), k, where + ["scale-" + sc["mode"]], fired
        ids = [int(x) for x in re.findall(r"#(\d{1,7})(?!\d)", body)]
        n_inst = max(1, len(plan["model"]["insts"]))
        if not ids or not body.strip():
            return None
        stride = max(ids) + 1
        k = max(1, sc["small_insts"] // n_inst)
        while k > 1 and len(body) * k * sc["factor"] > 12 * 2 ** 20:
            k //= 2
        if k * n_inst < 200:
            return None

        def copies(n):
            out = [head]
            for m in range(n):
                off = m * stride
                out.append(re.sub(r"#(\d{1,7})(?!\d)", lambda mo: "#%d" % (int(mo.group(1)) + off), body) if off else body)
            out.append(tail)
            return "".join(out)
        return copies(k), copies(k * sc["factor"]), k, where, fired

    def run_scale(self, plan, exe):
        st = self.scaled_texts(plan)
        if st is None:
            return {"scale": None, "main": {"steps": [], "end": {"end": "ok"}}, "phase1_end": None, "fired": {}, "where": [], "faulted_len": 0, "changed": False}
        small, large, k, where, fired = st
        ops = [{"op": "read", "file": "f.p21"}, {"op": "write_exchange", "into": "o1", "clock": 1000000000}]
        cost = {}
        ends = []
        last = None
        for name, text in (("small", small), ("large", large)):
            best = None
            for _ in range(2):
                o = pw.run_plan(exe, {"files": {"f.p21": text}, "ops": ops, "cpu_ms": self.cpu_ms(len(text)) * 4})
                for x in o["steps"]:
                    if "bytes" in x:
                        x["bytes_len"] = len(x.pop("bytes"))
                ends.append(o["end"])
                last = o
                c = o["end"].get("cpu_us")
                if c is not None and (best is None or c < best):
                    best = c
                if core.end_class(o["end"]):
                    break
            cost[name] = best
        bad = [e for e in ends if core.end_class(e)]
        main = dict(last, end=bad[0]) if bad else last
        return {"scale": {"copies": k, "bytes": [len(small), len(large)], "cost_us": [cost["small"], cost["large"]]},
                "main": main, "phase1_end": None, "fired": fired, "where": where, "faulted_len": len(large), "changed": bool(plan["faults"])}

    def run(self, plan):
        exe = pw.exe_for(self.ss, plan)
        if plan.get("scale"):
            return self.run_scale(plan, exe)
        base = plan["files"]["a.p21"]
        phase1 = None
        if plan.get("working"):
            ids = [x["id"] for x in plan["model"]["insts"]]
            ops = [{"op": "read", "file": "a.p21"}]
            for n, iid in enumerate(ids[:6]):
                ops.append({"op": "set_state", "id": iid, "state": [1, 2, 4, 3][n % 4]})
            ops.append({"op": "write_working", "into": "w0", "clock": 1000000000})
            phase1 = pw.run_plan(exe, {"files": {"a.p21": base}, "ops": ops})
            w = [o for o in phase1["steps"] if o.get("op") == "write_working"]
            base = w[0]["bytes"] if w else ""
        text, fired, where = faults.apply_all(base, plan["faults"])
        d = plan.get("delivery") or W2
        ops = [{"op": "read_working" if plan.get("working") else "read", "file": "f.p21", "delivery": d},
               {"op": "write_exchange", "into": "o1", "clock": 1000000000}]
        if plan.get("working"):
            ops.append({"op": "write_working", "into": "o2", "clock": 1000000000})
        main = pw.run_plan(exe, {"files": {"f.p21": text}, "ops": ops, "cpu_ms": self.cpu_ms(len(text))})
        for o in main["steps"]:
            if "bytes" in o:
                o["bytes_len"] = len(o.pop("bytes"))   # what was written is not judged here; keep observations small
        return {"phase1_end": phase1["end"] if phase1 else None, "main": main, "fired": fired, "where": where,
                "faulted_len": len(text), "changed": text != base}

    def harness_error(self, plan, obs):
        e = pw.exec_harness_error(obs["main"])
        if e:
            return e
        if plan.get("working") and obs["phase1_end"] and obs["phase1_end"].get("end") in ("badplan", "harness"):
            return "phase 1: %s" % obs["phase1_end"]
        return None

    # ---------------------------------------------------------------- judge
    def judge(self, plan, obs):
        out = []
        main = obs["main"]
        ec = core.end_class(main["end"])
        if ec:
            out.append({"class": "C05/" + ec, "detail": "faults %s hit %s; file of %d bytes; %s" % (
                plan["faults"], obs["where"], obs["faulted_len"], (main["end"].get("stderr") or "")[:1500])})
        else:
            for o in main["steps"]:
                for k in ("ret", "sev"):
                    if k in o and not (-5 <= o[k] <= 3):
                        out.append({"class": "C05/severity-out-of-range", "detail": "step %s %s=%s" % (o.get("op"), k, o[k])})
        sc = obs.get("scale")
        if sc and not ec and sc["cost_us"][0] and sc["cost_us"][1] and sc["cost_us"][0] >= 5000:
            ratio = sc["cost_us"][1] / float(sc["cost_us"][0])
            lim = plan["scale"]["factor"] * self.SCALE_LIMIT
            if ratio > lim:
                out.append({"class": "C05/superlinear", "detail": "%d copies of the unit cost %d us, %d copies cost %d us: ratio %.1f for a size ratio of %d (limit %.0f); faults %s hit %s" % (
                    sc["copies"], sc["cost_us"][0], sc["copies"] * plan["scale"]["factor"], sc["cost_us"][1], ratio, plan["scale"]["factor"], lim, plan["faults"], obs["where"])})
        if plan.get("working") and obs["phase1_end"] is not None:
            e1 = core.end_class(obs["phase1_end"])
            if e1:
                out.append({"class": "C05/fault-free-working-write/" + e1, "detail": (obs["phase1_end"].get("stderr") or "")[:800]})
        seen = set()
        return [x for x in out if not (x["class"] in seen or seen.add(x["class"]))]

    # ------------------------------------------------------------- features
    def features(self, plan, obs):
        main = obs["main"]
        reads = [o for o in main["steps"] if o.get("op") in ("read", "read_working")]
        done = [o for o in main["steps"] if "done" in o]
        where = obs["where"]
        probes = {"eof_inside_string": 0, "eof_inside_header": 0, "eof_inside_complex": 0, "stretch_ge_64_number": 0, "stretch_ge_8192": 0,
                  "nest_ge_1000": 0, "working_session_file": 1 if plan.get("working") else 0, "two_faults": 1 if len(plan["faults"]) > 1 else 0,
                  "scaling_pairs_timed": 1 if (obs.get("scale") and obs["scale"]["cost_us"][0] and obs["scale"]["cost_us"][0] >= 20000) else 0,
                  "scaling_pairs_not_timed": 1 if (plan.get("scale") and not (obs.get("scale") and obs["scale"]["cost_us"][0] and obs["scale"]["cost_us"][0] >= 20000)) else 0,
                  "reader_reported_error": 1 if reads and reads[0].get("sev", 3) < 2 else 0,
                  "reader_accepted_damaged_file": 1 if reads and reads[0].get("sev", 3) >= 2 and obs["changed"] else 0}
        for w in where:
            if w.startswith("truncate@") and w.endswith(":string"):
                probes["eof_inside_string"] += 1
            if w.startswith("truncate@header"):
                probes["eof_inside_header"] += 1
            if w.startswith("truncate@data:complex:"):
                probes["eof_inside_complex"] += 1
        for f in plan["faults"]:
            if f["kind"] == "stretch" and f.get("cls") == "number" and f.get("len", 0) >= 64:
                probes["stretch_ge_64_number"] += 1
            if f["kind"] == "stretch" and f.get("len", 0) >= 8192:
                probes["stretch_ge_8192"] += 1
            if f["kind"] == "nest" and f.get("depth", 0) >= 1000:
                probes["nest_ge_1000"] += 1
        return {"shape": core.hash_obj([plan["schema"], sorted(where), pw.delivery_class(plan.get("delivery") or []),
                                        main["end"].get("end")]),
                "nontrivial": bool(obs["changed"]) and bool(reads) and "sev" in reads[0],
                "probes": probes, "faults": obs["fired"], "io": (done[0]["io_reads"] if done else 0),
                "state": core.hash_obj([reads[0].get("sev") if reads else None, reads[0].get("insts") if reads else None, main["end"].get("end")])}

    def plan_features(self, plan):
        f = ["fault:" + x["kind"] + (":" + x["cls"] if "cls" in x else "") for x in plan["faults"]]
        if plan.get("working"):
            f.append("working-session")
        if plan.get("scale"):
            f.append("scaled")
        return f

    def sample(self, plan, obs):
        return {"schema": plan["schema"], "faults": plan["faults"], "hit": obs["where"], "working": bool(plan.get("working")),
                "delivery": plan.get("delivery"), "faulted_len": obs["faulted_len"],
                "read": {k: v for k, v in ([o for o in obs["main"]["steps"] if o.get("op", "").startswith("read")] or [{}])[0].items()
                         if k in ("sev", "ret", "insts", "errors")},
                "end": obs["main"]["end"].get("end")}

    def extra_coverage(self, tier, results):
        sizes = getattr(self, "_sweep_sizes", [])
        n_off = sum(sizes)
        ran = sum(1 for r in results if r["i"] < n_off)
        return {**pw.shipped_coverage(self.ss), "schemas": [it["name"] for it in self.ss.items], "schemas_rejected": self.ss.rejected,
                "truncation_sweep": {"files": sum(1 for s in sizes if s), "offsets": n_off, "offsets_run": ran,
                                     "exhaustive": bool(n_off) and ran == n_off,
                                     "note": "every prefix of these base files was read; exhaustive only for this sub-space"}}

    # --------------------------------------------------------------- shrink
    def shrink(self, plan):
        fl = plan["faults"]
        for keep in list_removals(fl, 1):
            yield self.finish(dict(plan, faults=keep))
        if plan.get("working"):
            yield self.finish(dict(plan, working=False))
        if plan.get("delivery") and plan["delivery"] != W2:
            yield self.finish(dict(plan, delivery=W2))
        insts = plan["model"]["insts"]
        referenced = set()
        for x in insts:
            for ref in pm.inst_refs(x):
                if ref != x["id"]:
                    referenced.add(ref)
        free = [n for n, x in enumerate(insts) if x["id"] not in referenced]
        for keep_free in list_removals(free, 0):
            drop = set(free) - set(keep_free)
            if drop and len(insts) - len(drop) >= 1:
                c = copy.deepcopy(plan)
                c["model"]["insts"] = [x for n, x in enumerate(insts) if n not in drop]
                yield self.finish(c)
        if plan["render"]["seps"]:
            yield self.finish(dict(plan, render=dict(plan["render"], seps={})))
        # smaller faults: shorter stretches, shallower nesting, fewer parts
        for n, f in enumerate(fl):
            for key, small in (("len", [64, 100, 300, 1000, 9000]), ("depth", [2, 10, 100, 1000]), ("n", [3, 20, 100])):
                if key in f:
                    for v in small:
                        if v < f[key]:
                            c = list(fl)
                            c[n] = dict(f, **{key: v})
                            yield self.finish(dict(plan, faults=c))
            if f["kind"] == "illegal-complex" and len(f.get("names", [])) > 1:
                for keep in list_removals(f["names"], 1):
                    c = list(fl)
                    c[n] = dict(f, names=keep)
                    yield self.finish(dict(plan, faults=c))


CHECK = C05()
