"""C14 — appending a file keeps both populations whole and their references separate.

Simulated dimension: the history Read(A) -> Append(B1) -> Append(B2) ... on one session, over
populations whose id ranges overlap arbitrarily; delivery schedule of every read.  After every
step the executor dumps the population; the oracle checks presence, stability of the earlier
instances, one common offset per appended file, and every reference inside it.
"""
import copy

from simlib import core, p21model as pm, p21work as pw
from simlib.driver import list_removals


class C14(pw.P21Check):
    prop = "C14"
    level = "exploration"
    label = "c14"
    rule = ("plan = one schema x (population A, then 1..3 populations B_i of the same schema whose ids overlap A's: identical ids, sparse ids, ids at "
            "999/1000/1001, maxima near multiples of 1000; references in plain attributes, aggregates, selects and complex parts) x delivery schedule; "
            "history Read(A), Append(B_1), ..., then WriteExchangeFile; population dumped after every step. non-trivial = >= 1 append of a file with "
            ">= 1 reference and >= 1 id shared with the session; distinct = hash(schema, number of appends, id-layout class, reference kinds present)")
    components_real = ["STEPfile::ReadExchangeFile / AppendExchangeFile (SetFileIdIncrement, IncrementFileId)", "ReadEntityRef addFileId paths (attributes, aggregates, selects, complex parts)", "InstMgr", "generated schema library"]
    components_stubbed = ["read(2) byte count (delivery schedule)", "time(2)"]
    assumptions = ["ids stay below 10^8 so that int arithmetic on shifted ids is in range (larger ids are outside this check's bounds)",
                   "every appended file is conforming on its own (checked: reading it alone gives a clean twin)"]
    sizes = [1, 2, 3, 5, 8]

    def n_plans(self, tier):
        return 8000 if tier == "quick" else 200000

    def time_budget(self, tier):
        return 120 if tier == "quick" else 1200

    def gen(self, seed, i, tier):
        r = core.rng(seed, "C14", i)
        nbase = 330 if tier == "quick" else 3000
        j = r.randrange(nbase)
        a = self.base_plan(seed, j, popts={"ids": r.choice(["dense", "sparse", "scattered"])}, tag="A")
        plan = dict(a)
        plan["extra"] = []
        for k in range(r.choice([1, 1, 2, 3])):
            # same schema (same j modulo the schema count), independent population
            jj = j + len(self.ss.items) * (1 + r.randrange(50))
            b = self.base_plan(seed, jj, popts={"ids": r.choice(["dense", "dense", "sparse", "scattered"])}, tag="B%d" % k)
            if r.random() < 0.5 and a["model"]["insts"] and b["model"]["insts"]:
                b["model"]["insts"] = self.renumber_like(r, b["model"]["insts"], a["model"]["insts"])
            plan["extra"].append({"model": b["model"], "render": b["render"]})
        plan["delivery"] = pw.gen_delivery(r, 2) if r.random() < 0.3 else [{"kind": "whole"}, {"kind": "whole"}]
        return self.finish(plan)

    @staticmethod
    def renumber_like(r, b_insts, a_insts):
        """give B ids taken from A's ids (collisions are the point), keeping B internally consistent"""
        a_ids = [x["id"] for x in a_insts]
        mode = r.choice(["same", "near1000", "shift1"])
        mapping = {}
        used = set()
        for n, x in enumerate(b_insts):
            if mode == "same":
                new = a_ids[n % len(a_ids)] if n < len(a_ids) else max(a_ids) + 1 + n
            elif mode == "near1000":
                new = [999, 1000, 1001, 1999, 2000, 998, 1002, 2001][n] if n < 8 else 3000 + n
            else:
                new = a_ids[n % len(a_ids)] + 1
            while new in used:
                new += 1
            used.add(new)
            mapping[x["id"]] = new
        return shift_insts(b_insts, mapping)

    def finish(self, plan):
        plan = dict(plan)
        files = {}
        text, rn = self.render_model(plan["model"], plan["render"])
        plan["render"] = rn
        files["a.p21"] = text
        extra = []
        for k, e in enumerate(plan["extra"]):
            t, ern = self.render_model(e["model"], e["render"])
            files["b%d.p21" % k] = t
            extra.append({"model": e["model"], "render": ern})
        plan["extra"] = extra
        plan["files"] = files
        return plan

    def run(self, plan):
        exe = self.exe(plan)
        d = plan["delivery"]
        ops = [{"op": "read", "file": "a.p21", "delivery": d}, {"op": "dump"}]
        for k in range(len(plan["extra"])):
            ops += [{"op": "append", "file": "b%d.p21" % k, "delivery": d}, {"op": "dump"}]
        ops.append({"op": "write_exchange", "into": "o1", "clock": 1000000000})
        main = pw.run_plan(exe, {"files": plan["files"], "ops": ops})
        # every file alone must be clean, otherwise the plan says nothing about appending
        twins = []
        for name in sorted(plan["files"]):
            t = pw.run_plan(exe, {"files": {name: plan["files"][name]}, "ops": [{"op": "read", "file": name}]})
            rd = pw.steps_by_op(t, "read")
            twins.append(t["end"].get("end") == "ok" and bool(rd) and rd[0].get("sev", 0) >= 2)
        return {"main": main, "twins_clean": twins}

    def harness_error(self, plan, obs):
        return pw.exec_harness_error(obs["main"])

    def judge(self, plan, obs):
        if not all(obs["twins_clean"]):
            return []
        main = obs["main"]
        ec = core.end_class(main["end"])
        if ec:
            return [{"class": "C14/abnormal-end", "detail": ec + " " + (main["end"].get("stderr") or "")[:500]}]
        out = []
        seen = set()

        def add(k, d):
            if k not in seen:
                seen.add(k)
                out.append({"class": k, "detail": d})
        dumps = [o["pop"] for o in main["steps"] if o.get("op") == "dump"]
        reads = [o for o in main["steps"] if o.get("op") in ("read", "append")]
        models = [plan["model"]["insts"]] + [e["model"]["insts"] for e in plan["extra"]]
        # expected population after each step, built as we go (offsets are not predicted: they are checked and adopted)
        expected = []
        for step, (pop, rd, m) in enumerate(zip(dumps, reads, models)):
            what = "read" if step == 0 else "append #%d" % step
            if rd.get("sev", 0) < 2:
                add("C14/error-reported/%s" % ("read" if step == 0 else "append"), "%s ended with severity %s: %s" % (what, rd.get("sev"), rd.get("usermsg", "")[:300]))
            if len(pop) != len(expected) + len(m):
                add("C14/instances-missing" if len(pop) < len(expected) + len(m) else "C14/instances-extra",
                    "after %s the session holds %d instances, expected %d + %d" % (what, len(pop), len(expected), len(m)))
                break
            # earlier instances keep ids and values
            for e, g in zip(expected, pop):
                if g["id"] != e["id"]:
                    add("C14/earlier-id-changed", "after %s: earlier instance #%d now has id #%d" % (what, e["id"], g["id"]))
                    break
                d = pw.inst_diff(e, pw.parse_inst_text(g["text"]))
                if d:
                    add("C14/earlier-value-changed/" + d[0], "after %s: earlier instance changed: %s" % (what, d[1]))
                    break
            new = pop[len(expected):]
            if step == 0:
                off = 0
            else:
                offs = sorted(set(g["id"] - x["id"] for g, x in zip(new, m)))
                if len(offs) != 1:
                    add("C14/no-common-offset", "after %s: appended ids %s from original %s give offsets %s" % (what, [g["id"] for g in new][:12], [x["id"] for x in m][:12], offs[:6]))
                    break
                off = offs[0]
                prev_max = max([e["id"] for e in expected]) if expected else 0
                if expected and off <= prev_max:
                    add("C14/offset-not-above-earlier-ids", "after %s: offset %d is not larger than the earlier maximum id %d" % (what, off, prev_max))
            shifted = shift_insts(m, {x["id"]: x["id"] + off for x in m}, default_off=off)
            for e, g in zip(shifted, new):
                d = pw.inst_diff(e, pw.parse_inst_text(g["text"]))
                if d:
                    kind = "reference" if "ref" in d[0] else "value"
                    add("C14/appended-%s-wrong/%s" % (kind, d[0]), "after %s (offset %d): %s" % (what, off, d[1]))
                    break
            expected = expected + shifted
        # the written file shows the same
        wr = pw.steps_by_op(main, "write_exchange")
        if wr and not out:
            try:
                got = pm.parse(wr[0]["bytes"])
                if len(got["insts"]) != len(expected):
                    add("C14/written-count", "written file has %d instances, session %d" % (len(got["insts"]), len(expected)))
                else:
                    for e, g in zip(expected, got["insts"]):
                        if e["id"] != g["id"]:
                            add("C14/written-ids", "written file: #%d where #%d expected" % (g["id"], e["id"]))
                            break
                        d = pw.inst_diff(e, g)
                        if d:
                            add("C14/written-value/" + d[0], "written file: " + d[1])
                            break
            except pm.P21SyntaxError as ex:
                add("C14/written-syntax", str(ex))
        return out

    def features(self, plan, obs):
        a_ids = set(x["id"] for x in plan["model"]["insts"])
        shared = 0
        refs = 0
        kinds = set()
        near = 0
        for e in plan["extra"]:
            for x in e["model"]["insts"]:
                if x["id"] in a_ids:
                    shared += 1
                if x["id"] in (999, 1000, 1001, 1999, 2000, 2001):
                    near += 1
                rr = pm.inst_refs(x)
                refs += len(rr)
                if rr and len(x["parts"]) > 1:
                    kinds.add("ref-in-complex")
                for p in x["parts"]:
                    for v in p["vals"]:
                        if v[0] == "list" and pm.refs_of(v, []):
                            kinds.add("ref-in-aggregate")
                        if v[0] == "ref":
                            kinds.add("ref-plain")
        done = [o for o in obs["main"]["steps"] if "done" in o]
        dumps = [o["pop"] for o in obs["main"]["steps"] if o.get("op") == "dump"]
        maxa = max(a_ids) if a_ids else 0
        b_ids = [[x["id"] for x in e["model"]["insts"]] for e in plan["extra"]]
        layout = [min(shared, 3), min(near, 3), maxa % 1000 if maxa % 1000 in (0, 1, 998, 999) else -1, [len(b) for b in b_ids],
                  [b == sorted(b) for b in b_ids], [min(b) <= maxa if b else False for b in b_ids]]
        return {"shape": core.hash_obj([plan["schema"], len(plan["extra"]), layout, sorted(kinds), sorted(set(p["ent"] for e in plan["extra"] for x in e["model"]["insts"] for p in x["parts"]))]),
                "nontrivial": bool(plan["extra"]) and refs > 0 and shared > 0 and all(obs["twins_clean"]),
                "probes": {"shared_ids": shared, "appended_refs": refs, "ids_near_multiple_of_1000": near, "two_or_more_appends": 1 if len(plan["extra"]) > 1 else 0,
                           "ref_in_aggregate": 1 if "ref-in-aggregate" in kinds else 0, "ref_in_complex": 1 if "ref-in-complex" in kinds else 0,
                           "twin_not_clean": 0 if all(obs["twins_clean"]) else 1},
                "faults": {}, "io": done[0]["io_reads"] if done else 0,
                "state": core.hash_obj([[g["id"] for g in d] for d in dumps[-1:]])}

    def sample(self, plan, obs):
        dumps = [o["pop"] for o in obs["main"]["steps"] if o.get("op") == "dump"]
        return {"schema": plan["schema"], "a_ids": [x["id"] for x in plan["model"]["insts"]],
                "b_ids": [[x["id"] for x in e["model"]["insts"]] for e in plan["extra"]],
                "session_ids_after_each_step": [[g["id"] for g in d] for d in dumps]}

    def plan_features(self, plan):
        f = []
        for e in plan["extra"]:
            for x in pm.value_features(e["model"]["insts"]):
                if x not in f:
                    f.append(x)
        return f

    def shrink(self, plan):
        if len(plan["extra"]) > 1:
            for keep in list_removals(plan["extra"], 1):
                yield self.finish(dict(plan, extra=keep))
        for c in self.shrink_model(plan):
            yield c
        for k, e in enumerate(plan["extra"]):
            sub = {"model": e["model"], "render": e["render"], "schema": plan["schema"], "schema_def": plan["schema_def"]}
            for c in self.shrink_model(sub, finish=lambda p: p):
                ex = list(plan["extra"])
                ex[k] = {"model": c["model"], "render": c["render"]}
                yield self.finish(dict(plan, extra=ex))


def shift_insts(insts, mapping, default_off=0):
    out = copy.deepcopy(insts)

    def fix(v):
        if v[0] == "ref":
            v[1] = mapping.get(v[1], v[1] + default_off)
        elif v[0] == "list":
            for x in v[1]:
                fix(x)
        elif v[0] == "typed":
            fix(v[2])
    for x in out:
        x["id"] = mapping.get(x["id"], x["id"] + default_off)
        for p in x["parts"]:
            for v in p["vals"]:
                fix(v)
    return out


CHECK = C14()
