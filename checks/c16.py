"""C16 — working-session files round-trip populations with per-instance state.

Simulated dimensions: the history read -> assign states / clear required attributes -> save(t1)
-> fresh session load -> save(t2) [-> load -> save(t3)], the clock read by the header writer,
the delivery schedule of every read.
"""
import copy

from simlib import core, p21model as pm, p21work as pw
from simlib.driver import list_removals

STATE_NUM = {"C": 1, "I": 2, "D": 3, "N": 4}   # stateEnum: completeSE, incompleteSE, deleteSE, newSE
NUM_STATE = {v: k for k, v in STATE_NUM.items()}


class C16(pw.P21Check):
    prop = "C16"
    level = "exploration"
    label = "c16"
    rule = ("plan = conforming population (generator of C01) read from an exchange file, then a seeded assignment of editing states {complete, "
            "incomplete, new, delete (only to instances nobody refers to)} and seeded clearing of required attributes (mostly on instances marked incomplete, sometimes on complete and new ones); "
            "history save(t1) -> load in a fresh session -> save(t2), repeated 1..3 times under seeded delivery schedules and clock values. "
            "Oracle: after every load the population equals the saved one minus the deleted instances (ids, types, values incl. the cleared ones), each "
            "instance's state is the assigned one, and consecutive saves are byte-identical outside the time stamp. "
            "non-trivial = >= 2 different states assigned and >= 1 save/load cycle completed; distinct = hash(schema, multiset of states, cleared?, cycles)")
    components_real = ["STEPfile::WriteWorkingFile / ReadWorkingFile (state prefixes, two-pass reader)", "MgrNode states", "InstMgr", "generated schema library"]
    components_stubbed = ["read(2) byte count (delivery schedule)", "time(2) (simulated clock)"]
    assumptions = ["deleted state is only given to instances that no other instance refers to (the statement does not say what a dangling reference becomes)",
                   "TZ=UTC in the executor"]
    sizes = [1, 2, 3, 5, 8]

    def n_plans(self, tier):
        return 16000 if tier == "quick" else 200000

    def time_budget(self, tier):
        return 120 if tier == "quick" else 1200

    def gen(self, seed, i, tier):
        r = core.rng(seed, "C16", i)
        nbase = 330 if tier == "quick" else 3000
        plan = self.base_plan(seed, r.randrange(nbase))
        insts = plan["model"]["insts"]
        referenced = set()
        for x in insts:
            for ref in pm.inst_refs(x):
                if ref != x["id"]:
                    referenced.add(ref)
        states = {}
        for x in insts:
            c = r.random()
            if c < 0.35:
                continue                      # keeps the state the reader gave it (complete)
            st = r.choice("CINND" if x["id"] not in referenced else "CINN")
            states[str(x["id"])] = st
        sch = self.schema_of(plan)
        cleared = []
        for x in insts:
            st = states.get(str(x["id"]))
            # the state is an editing flag set by the application: a missing value is most common on "incomplete" instances, but
            # nothing ties it to that state - complete and new instances may lack a value too and must come back in THEIR state
            if st != "D" and r.random() < (0.6 if st == "I" else 0.2):
                # clear one required, non-derived attribute
                cands = []
                for pi, p in enumerate(x["parts"]):
                    ent = [e for e in sch.order if e.upper() == p["ent"]]
                    if not ent:
                        continue
                    sl = sch.internal_slots(ent[0]) if len(x["parts"]) == 1 else [(ent[0], a, False) for a in sch.own_slots(ent[0])]
                    if len(sl) != len(p["vals"]):
                        continue
                    for si, ((o, a, d), v) in enumerate(zip(sl, p["vals"])):
                        if not d and not a.get("optional") and v[0] not in ("null", "derived") and not a.get("redecl"):
                            cands.append({"id": x["id"], "part": pi if len(x["parts"]) > 1 else -1, "attr": si, "pidx": pi})
                if cands:
                    cleared.append(r.choice(cands))
        plan["states"] = states
        plan["cleared"] = cleared
        plan["cycles"] = r.choice([1, 1, 2, 3])
        t = pw.gen_clock(r)
        plan["clocks"] = [t] + [r.choice([t, t + 1, t + 61, max(0, t - 5)]) for _ in range(3)]
        plan["delivery"] = pw.gen_delivery(r, 2) if r.random() < 0.3 else [{"kind": "whole"}, {"kind": "whole"}]
        return self.finish(plan)

    def finish(self, plan):
        plan = dict(plan)
        text, rn = self.render_model(plan["model"], plan["render"])
        plan["render"] = rn
        plan["files"] = {"a.p21": text}
        ids = set(x["id"] for x in plan["model"]["insts"])
        plan["states"] = {k: v for k, v in plan["states"].items() if int(k) in ids}
        plan["cleared"] = [c for c in plan["cleared"] if c["id"] in ids and plan["states"].get(str(c["id"])) != "D"]
        return plan

    def run(self, plan):
        exe = self.exe(plan)
        d = plan["delivery"]
        ops = [{"op": "read", "file": "a.p21", "delivery": d}]
        for k, st in sorted(plan["states"].items(), key=lambda kv: int(kv[0])):
            ops.append({"op": "set_state", "id": int(k), "state": STATE_NUM[st]})
        for c in plan["cleared"]:
            ops.append({"op": "null_attr", "id": c["id"], "part": c["part"], "attr": c["attr"]})
        ops += [{"op": "dump"}, {"op": "write_working", "into": "w0", "clock": plan["clocks"][0]}]
        for k in range(plan["cycles"]):
            ops += [{"op": "session"}, {"op": "read_working", "file": "w%d" % k, "delivery": d}, {"op": "dump"},
                    {"op": "write_working", "into": "w%d" % (k + 1), "clock": plan["clocks"][min(k + 1, 3)]}]
        # strict sessions (the library's default): in lenient mode a missing INTEGER/REAL/NUMBER/STRING is *replaced* on load
        # (C15), so "required attributes still missing" can only be observed strictly
        for op in ops:
            if op["op"] == "session":
                op["strict"] = 1
        main = pw.run_plan(exe, {"files": plan["files"], "ops": ops, "strict": 1})
        twin = pw.run_plan(exe, {"files": plan["files"], "ops": [{"op": "read", "file": "a.p21"}]})
        rd = pw.steps_by_op(twin, "read")
        return {"main": main, "twin_clean": twin["end"].get("end") == "ok" and bool(rd) and rd[0].get("sev", 0) >= 2}

    def harness_error(self, plan, obs):
        return pw.exec_harness_error(obs["main"])

    def expected_after_edit(self, plan):
        insts = copy.deepcopy(plan["model"]["insts"])
        byid = {x["id"]: x for x in insts}
        for c in plan["cleared"]:
            byid[c["id"]]["parts"][c["pidx"]]["vals"][c["attr"]] = ["null"]
        return insts

    def judge(self, plan, obs):
        if not obs["twin_clean"]:
            return []
        main = obs["main"]
        ec = core.end_class(main["end"])
        if ec:
            return [{"class": "C16/abnormal-end", "detail": ec + " " + (main["end"].get("stderr") or "")[:500]}]
        out = []
        seen = set()

        def add(k, d):
            if k not in seen:
                seen.add(k)
                out.append({"class": k, "detail": d})
        dumps = [o["pop"] for o in main["steps"] if o.get("op") == "dump"]
        writes = pw.steps_by_op(main, "write_working")
        loads = pw.steps_by_op(main, "read_working")
        edited = self.expected_after_edit(plan)
        want_state = {x["id"]: plan["states"].get(str(x["id"]), "C") for x in edited}
        survivors = [x for x in edited if want_state[x["id"]] != "D"]
        # the in-memory population before the first save (sanity of the edit ops themselves)
        if dumps:
            for x, g in zip(edited, dumps[0]):
                if NUM_STATE.get(g["state"]) != want_state[x["id"]]:
                    add("C16/state-not-assigned", "#%d: state %s after ChangeState(%s)" % (x["id"], g["state"], want_state[x["id"]]))
        for k, pop in enumerate(dumps[1:]):
            what = "load %d" % (k + 1)
            if k < len(loads) and loads[k].get("ret", 0) < -1:
                add("C16/load-failed", "%s returned severity %s: %s" % (what, loads[k].get("ret"), loads[k].get("usermsg", "")[:200]))
            got_ids = [g["id"] for g in pop]
            exp_ids = [x["id"] for x in survivors]
            if got_ids != exp_ids:
                dels = [x["id"] for x in edited if want_state[x["id"]] == "D"]
                if set(dels) & set(got_ids):
                    add("C16/deleted-instance-restored", "%s: instances marked deleted %s are present (ids %s)" % (what, dels, got_ids[:15]))
                elif set(exp_ids) - set(got_ids):
                    add("C16/instance-lost", "%s: ids %s, expected %s" % (what, got_ids[:15], exp_ids[:15]))
                else:
                    add("C16/ids-differ", "%s: ids %s, expected %s" % (what, got_ids[:15], exp_ids[:15]))
                break
            for x, g in zip(survivors, pop):
                st = NUM_STATE.get(g["state"], "?")
                if st != want_state[x["id"]]:
                    add("C16/state/%s-restored-as-%s" % (want_state[x["id"]], st), "%s: #%d saved in state %s came back as %s" % (what, x["id"], want_state[x["id"]], st))
                d = pw.inst_diff(x, pw.parse_inst_text(g["text"]))
                if d:
                    add("C16/value/" + d[0], "%s: %s" % (what, d[1]))
        # saving again reproduces the file byte for byte apart from the time stamp
        for k in range(1, len(writes)):
            a, b = writes[k - 1]["bytes"], writes[k]["bytes"]
            ta = "'" + pw.timestamp(plan["clocks"][min(k - 1, 3)]) + "'"
            tb = "'" + pw.timestamp(plan["clocks"][min(k, 3)]) + "'"
            if k == 1:
                # the first save still contains the deleted instances ('D' records); compare save k with save k+1 only from the 2nd save on,
                # and the first pair modulo the D records
                import re
                a = re.sub(r"(?ms)^D(?:\s*/\*.*?\*/\s*)*\s*#[0-9]+\s*=.*?;\n", "", a)
            if a.count(ta) < 1:
                add("C16/timestamp", "save %d does not carry the simulated clock %s" % (k, ta))
                continue
            exp = a.replace(ta, tb, 1)
            if b != exp:
                add("C16/second-save-differs", "save %d vs save %d: %s" % (k, k + 1, first_diff(exp, b)))
        return out

    def features(self, plan, obs):
        sts = sorted(plan["states"].values())
        done = [o for o in obs["main"]["steps"] if "done" in o]
        loads = pw.steps_by_op(obs["main"], "read_working")
        return {"shape": core.hash_obj([plan["schema"], sts, len(plan["cleared"]) > 0, plan["cycles"]]),
                "nontrivial": len(set(sts)) >= 2 and bool(loads) and obs["twin_clean"],
                "probes": {"state_" + s: sts.count(s) for s in "CIND"} | {"cleared_required_attrs": len(plan["cleared"]), "cycles": plan["cycles"],
                                                                            "complex_instances": sum(1 for x in plan["model"]["insts"] if len(x["parts"]) > 1),
                                                                            "twin_not_clean": 0 if obs["twin_clean"] else 1},
                "faults": {}, "io": done[0]["io_reads"] if done else 0,
                "clock_span": sum(abs(plan["clocks"][k + 1] - plan["clocks"][k]) for k in range(min(plan["cycles"], 3))),
                "state": core.hash_obj([(o.get("ret"), o.get("insts")) for o in loads])}

    def plan_features(self, plan):
        f = ["state:" + s for s in sorted(set(plan["states"].values()))]
        if plan["cleared"]:
            f.append("cleared-required-attr")
        if any(len(x["parts"]) > 1 for x in plan["model"]["insts"]):
            f.append("shape:complex")
        return f

    def sample(self, plan, obs):
        w = pw.steps_by_op(obs["main"], "write_working")
        return {"schema": plan["schema"], "states": plan["states"], "cleared": plan["cleared"], "cycles": plan["cycles"], "clocks": plan["clocks"],
                "first_save_tail": (w[0]["bytes"][-400:] if w else None)}

    def shrink(self, plan):
        if plan["cycles"] > 1:
            yield self.finish(dict(plan, cycles=1))
        keys = sorted(plan["states"])
        for keep in list_removals(keys, 0):
            yield self.finish(dict(plan, states={k: plan["states"][k] for k in keep}))
        for keep in list_removals(plan["cleared"], 0):
            yield self.finish(dict(plan, cleared=keep))
        for c in self.shrink_model(plan):
            yield c
        if plan["clocks"] != [1000000000, 1000000007, 1000000007, 1000000007]:
            yield self.finish(dict(plan, clocks=[1000000000, 1000000007, 1000000007, 1000000007]))


def first_diff(a, b):
    n = min(len(a), len(b))
    i = 0
    while i < n and a[i] == b[i]:
        i += 1
    return "differ at byte %d: expected ...%r got ...%r (lengths %d/%d)" % (i, a[max(0, i - 40):i + 40], b[max(0, i - 40):i + 40], len(a), len(b))


CHECK = C16()
