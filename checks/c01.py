"""C01 — Part 21 exchange files survive read-then-write with every value intact.

Simulated dimensions: delivery schedule of every read(2) (independently for pass 1 and
pass 2, which are separate opens of the file), the clock read by the header writer, the
read->write->read->write history.  Workload: generated schemas x conforming populations.
"""
import copy

from simlib import core, p21model as pm, p21work as pw
from simlib.driver import CheckBase, list_removals


def slug(msg):
    import re
    s = msg.strip().split("\n")
    s = [x for x in s if x.strip()]
    s = s[0] if s else ""
    s = re.sub(r"#?\d+", "N", s)
    s = re.sub(r"'[^']*'", "Q", s)
    s = re.sub(r"[^A-Za-z]+", "-", s).strip("-").lower()
    return s[:48] or "none"


class C01(CheckBase):
    prop = "C01"
    level = "exploration"
    engine = "p21sim"
    rule = ("plan = (schema from {hand-written kitchen sink, seeded generated schemas (emitter grammar: DESIGN.md App. A)}) x "
            "(seeded conforming population, 1..40 instances, renderer App. B: spacing, comments, literal spellings, sparse/scattered ids, "
            "forward references, complex instances) x (delivery schedule per open) x (clock values per write); scenario read -> write(t1) -> "
            "fresh session read -> write(t2) [-> read -> write(t3=t2)], each executed under the seeded delivery schedule AND whole-file delivery. "
            "non-trivial = >=2 instances reached pass 2 and a written file was parsed; distinct = hash(schema, entity shapes used, value kinds, delivery class)")
    components_real = ["STEPfile (two-pass reader, writer)", "InstMgr", "Registry + generated schema library (exp2cxx output compiled per schema)",
                       "STEPattribute/STEPaggregate/SDAI_Select/STEPcomplex", "libstdc++ basic_filebuf"]
    components_stubbed = ["read(2) byte count per call (delivery schedule)", "time(2) (simulated clock)", "fopen64/fclose (only to attach schedules)"]
    assumptions = ["generated schemas stay inside the emitter grammar; a schema that exp2cxx rejects or whose code does not compile is listed under schemas_rejected and not judged here",
                   "value equivalence: integers/enums/strings/binaries exact, reals equal at 15 significant digits, NUMBER may change spelling",
                   "TZ=UTC in the executor so the simulated clock has one rendering"]

    n_generated = {"quick": 5, "thorough": 24}

    def setup(self, tier):
        seed = getattr(self, "seed", None)
        if seed is None:
            seed = core.default_seed(tier)
        if getattr(self, "replay_mode", False):
            self.ss = pw.SchemaSet()
            return
        import os
        ov = {f: True for f in os.environ.get("VERIF_FEATURES", "").split(",") if f}   # exploration aid, not used by registered commands
        defs = pw.schema_defs(seed, tier, self.n_generated[tier], feature_overrides=ov or None, label="c01")
        self.ss = pw.build_schema_set(defs)
        if not self.ss.items:
            raise RuntimeError("no schema library could be built: %s" % self.ss.rejected)

    def n_plans(self, tier):
        return 6000 if tier == "quick" else 250000

    def time_budget(self, tier):
        return 150 if tier == "quick" else 1500

    # ------------------------------------------------------------ generator
    def gen(self, seed, i, tier):
        r = core.rng(seed, "C01", i)
        it = self.ss.items[i % len(self.ss.items)]
        sch = it["schema"]
        popts = {"ids": r.choice(["dense", "sparse", "scattered"]), "rich_strings": r.random() < 0.7,
                 "complex": r.random() < 0.8, "shuffle": r.random() < 0.3, "max_insts": 40,
                 "num_int_in_list": r.random() < 0.1}
        n = r.choice([1, 1, 2, 3, 5, 8, 12, 20])
        for attempt in range(5):
            try:
                insts = pm.PopGen(core.rng(seed, "C01", i, "pop", attempt), sch, popts).generate(n)
                break
            except pm.Infeasible:
                insts = None
        if insts is None:
            insts = []
        plan = {"property": "C01", "schema": it["name"], "schema_def": it["sd"],
                "model": {"header": pm.default_header(core.rng(seed, "C01", i, "hdr"), it["name"], rich=r.random() < 0.6), "insts": insts},
                "render": {"spell": r.choice([None] * 6 + [{"id_pad": 4}, {"id_pad": 9, "plus_int": True}, {"id_pad": 25}, {"plus_int": True}, {"zero_pad": True}, {"zero_pad": True, "id_pad": 3}]), "eol": r.choice(["\n"] * 7 + ["", " ", "\r\n"]), "p_ws": r.choice([0, 0.05, 0.15, 0.4]), "p_cmt_between": r.choice([0, 0, 0.1, 0.5]),
                           "p_cmt_in": r.choice([0, 0, 0, 0, 0, 0, 0.03, 0.2]), "sections": r.choice(["hif", "i", "i", "hi"]),
                           "seed": core.derive(seed, "C01", i, "render")},
                "delivery": [pw.gen_delivery(r), pw.gen_delivery(r), pw.gen_delivery(r)],
                "clocks": self.gen_clocks(r), "third": r.random() < 0.25, "byname": r.random() < 0.15}
        return self.finish(plan)

    @staticmethod
    def gen_clocks(r):
        t1 = pw.gen_clock(r)
        t2 = r.choice([t1, t1 + 1, t1 + 7, t1 - 3600, pw.gen_clock(r)])
        if t2 < 0:
            t2 = 0
        return [t1, t2]

    @staticmethod
    def finish(plan):
        """derive file bytes and ops from model + render options (called again after every shrinking step)"""
        plan = dict(plan)
        lines = pm.file_lines(plan["model"]["header"], plan["model"]["insts"])
        rn = plan["render"]
        if "seps" not in rn:
            rn = dict(rn, seps=pm.gen_seps(core.rng(rn["seed"], "r"), lines, rn["p_ws"], rn["p_cmt_between"], rn["p_cmt_in"], rn["sections"]))
        ntok = {k: len(t) for k, t in lines}
        rn = dict(rn, seps={k: v for k, v in rn["seps"].items() if int(k.rsplit(":", 1)[1]) < ntok.get(k.rsplit(":", 1)[0], -1)})
        plan["render"] = rn
        plan["files"] = {"a.p21": pm.render(lines, rn["seps"], rn.get("eol", "\n"), rn.get("spell"))}
        d = plan["delivery"]
        t1, t2 = plan["clocks"]
        ops = [{"op": "read", "file": "a.p21", "delivery": d[0]},
               {"op": "write_exchange", "into": "o1", "clock": t1, "byname": 1 if plan.get("byname") else 0},
               {"op": "session"},
               {"op": "read", "file": "o1", "delivery": d[1], "skip_if_empty": 1},
               {"op": "write_exchange", "into": "o2", "clock": t2}]
        if plan.get("third"):
            ops += [{"op": "session"}, {"op": "read", "file": "o2", "delivery": d[2], "skip_if_empty": 1}, {"op": "write_exchange", "into": "o3", "clock": t2}]
        plan["ops"] = ops
        return plan

    # ------------------------------------------------------------------ run
    def exec_plan(self, plan):
        p = {"files": plan["files"], "ops": plan["ops"], "strict": 0}
        return pw.exe_for(self.ss, plan), p

    def run(self, plan):
        exe, p = self.exec_plan(plan)
        main = pw.run_plan(exe, p)
        alt = None
        if any(x["kind"] != "whole" for d in plan["delivery"] for x in d):
            alt = pw.run_plan(exe, pw.strip_delivery(p))
        return {"main": main, "alt": alt}

    def harness_error(self, plan, obs):
        for o in (obs["main"], obs["alt"]):
            if o is None:
                continue
            e = pw.exec_harness_error(o)
            if e:
                return e
        try:
            parsed = pm.parse(plan["files"]["a.p21"])
        except pm.P21SyntaxError as e:
            return "renderer produced text the independent parser rejects: %s" % e
        sc = pm.insts_self_check(plan["model"]["insts"], parsed["insts"])
        if sc:
            return "parse(render(model)) != model: %s" % sc
        return None

    # ---------------------------------------------------------------- judge
    def judge(self, plan, obs):
        out = []
        seen = set()

        def add(klass, detail):
            if klass not in seen:
                seen.add(klass)
                out.append({"class": klass, "detail": detail})

        main = obs["main"]
        ec = core.end_class(main["end"])
        if ec:
            add("C01/crash/" + ec, (main["end"].get("stderr") or "")[:800] + " last step: %s" % ([o.get("op") for o in main["steps"]][-1:],))
        reads = pw.steps_by_op(main, "read")
        writes = pw.steps_by_op(main, "write_exchange")
        # (i) reading reports no error
        for n, o in enumerate(reads):
            if o.get("skipped"):
                continue
            if o["sev"] < 2:      # worse than a user message (SEVERITY_USERMSG = 2, SEVERITY_NULL = 3): C03's own definition of "error"
                which = "input" if n == 0 else "own-output"
                add("C01/read-error/%s/%s" % (which, slug(o.get("detailmsg") or o.get("usermsg") or "")),
                    "read #%d (%s) ended with severity %d (3 = none, 2 = user message): %s | %s" % (n, which, o["sev"], o.get("usermsg", "")[:300], o.get("detailmsg", "")[:500]))
        # (ii) first written file denotes the same population
        model = plan["model"]
        if writes:
            o1 = writes[0]["bytes"]
            self.compare_with_model(model, o1, plan["clocks"][0], add, "o1")
        # (iii) second write reproduces the first byte for byte, time stamp aside (and the stamp is the simulated clock)
        if len(writes) >= 2 and writes[0]["bytes"]:
            o1, o2 = writes[0]["bytes"], writes[1]["bytes"]
            ts1, ts2 = "'" + pw.timestamp(plan["clocks"][0]) + "'", "'" + pw.timestamp(plan["clocks"][1]) + "'"
            if o1.count(ts1) < 1:
                add("C01/timestamp", "first file does not carry the simulated clock %s" % ts1)
            else:
                exp = o1.replace(ts1, ts2, 1)
                if o2 != exp:
                    add("C01/second-write-differs", first_diff(exp, o2))
            if len(writes) >= 3:
                if writes[2]["bytes"] != o2:
                    add("C01/third-write-differs", first_diff(o2, writes[2]["bytes"]))
        # (iv) the file, not its delivery, determines the outcome
        if obs["alt"] is not None:
            a = pw.semantic(main["steps"])
            b = pw.semantic(obs["alt"]["steps"])
            if a != b or core.end_class(obs["alt"]["end"]) != ec:
                d = "observations differ between seeded delivery %s and whole-file delivery" % ([pw.delivery_class(x) for x in plan["delivery"]],)
                for x, y in zip(a, b):
                    if x != y:
                        keys = [k for k in x if x.get(k) != y.get(k)]
                        d += "; first differing step %s (%s) keys %s" % (x.get("step"), x.get("op"), keys)
                        break
                add("C01/delivery-dependent", d)
        return out

    @staticmethod
    def compare_with_model(model, text, clock, add, label):
        if not text:
            add("C01/nothing-written", "%s is empty" % label)
            return
        try:
            got = pm.parse(text)
        except pm.P21SyntaxError as e:
            add("C01/output-syntax", "%s is not valid Part 21: %s" % (label, e))
            return
        mi, gi = model["insts"], got["insts"]
        if [x["id"] for x in mi] != [x["id"] for x in gi]:
            add("C01/ids", "%s: instance ids %s, expected %s" % (label, [x["id"] for x in gi][:20], [x["id"] for x in mi][:20]))
            gmap = {x["id"]: x for x in gi}
        else:
            gmap = {x["id"]: x for x in gi}
        for m in mi:
            g = gmap.get(m["id"])
            if g is None:
                continue
            if [p["ent"] for p in m["parts"]] != [p["ent"] for p in g["parts"]]:
                add("C01/entity-type", "%s: #%d written as %s, expected %s" % (label, m["id"], [p["ent"] for p in g["parts"]], [p["ent"] for p in m["parts"]]))
                continue
            for mp, gp in zip(m["parts"], g["parts"]):
                if len(mp["vals"]) != len(gp["vals"]):
                    add("C01/arity", "%s: #%d %s written with %d values, expected %d" % (label, m["id"], mp["ent"], len(gp["vals"]), len(mp["vals"])))
                    continue
                for k, (a, b) in enumerate(zip(mp["vals"], gp["vals"])):
                    d = pm.value_diff(a, b, "#%d.%s[%d]" % (m["id"], mp["ent"], k))
                    if d:
                        add("C01/value/" + d[0], "%s: %s" % (label, d[1]))
        # header apart from the time stamp
        mh = {h["ent"]: h for h in model["header"]}
        gh = {h["ent"]: h for h in got["header"]}
        for name, h in mh.items():
            g = gh.get(name)
            if g is None:
                add("C01/header/missing", "%s: header entity %s missing" % (label, name))
                continue
            if len(g["vals"]) != len(h["vals"]):
                add("C01/header/arity", "%s: %s has %d values" % (label, name, len(g["vals"])))
                continue
            for k, (a, b) in enumerate(zip(h["vals"], g["vals"])):
                if name == "FILE_NAME" and k == 1:
                    if b != ["str", pw.timestamp(clock)]:
                        add("C01/timestamp", "%s: FILE_NAME.time_stamp is %r, simulated clock says %s" % (label, b, pw.timestamp(clock)))
                    continue
                d = pm.value_diff(a, b, "%s[%d]" % (name, k))
                if d:
                    add("C01/header/" + d[0], "%s: %s" % (label, d[1]))

    # ------------------------------------------------------------- features
    def features(self, plan, obs):
        insts = plan["model"]["insts"]
        kinds = set()
        shapes = set()

        def walk(v):
            kinds.add(v[0])
            if v[0] == "list":
                for x in v[1]:
                    walk(x)
                if any(y[0] == "list" for y in v[1]):
                    kinds.add("nested-list")
                if len(v[1]) >= 2 and v[1][0][0] == "str":
                    kinds.add("str-list>=2")
            elif v[0] == "typed":
                kinds.add("typed:" + v[2][0])
                walk(v[2])
        fwd = 0
        pos = {x["id"]: n for n, x in enumerate(insts)}
        for n, x in enumerate(insts):
            shapes.add("+".join(p["ent"] for p in x["parts"]))
            for p in x["parts"]:
                for v in p["vals"]:
                    walk(v)
            for ref in pm.inst_refs(x):
                if pos.get(ref, -1) > n:
                    fwd += 1
        main = obs["main"]
        reads = pw.steps_by_op(main, "read")
        writes = pw.steps_by_op(main, "write_exchange")
        done = [o for o in main["steps"] if "done" in o]
        io = (done[0]["io_reads"] if done else 0)
        probes = {"complex_instances": sum(1 for x in insts if len(x["parts"]) > 1), "forward_refs": fwd,
                  "comment_seps": sum(1 for v in plan["render"]["seps"].values() if "/*" in v),
                  "ws_seps": sum(1 for v in plan["render"]["seps"].values() if "/*" not in v),
                  "one_byte_delivery": 1 if any(x.get("sizes") == [1] for d in plan["delivery"] for x in d) else 0,
                  "third_cycle": 1 if plan.get("third") else 0, "by_name_writer": 1 if plan.get("byname") else 0,
                  "clock_backward": 1 if plan["clocks"][1] < plan["clocks"][0] else 0,
                  "clock_equal": 1 if plan["clocks"][1] == plan["clocks"][0] else 0,
                  "short_reads": sum(o.get("io_short", 0) for o in done)}
        for k in ("derived", "null", "typed", "nested-list", "str-list>=2", "bin", "num"):
            probes["value_" + k] = 1 if k in kinds else 0
        return {"shape": core.hash_obj([plan["schema"], sorted(shapes), sorted(kinds), [pw.delivery_class(d) for d in plan["delivery"]]]),
                "nontrivial": len(insts) >= 2 and bool(writes) and bool(writes[0].get("bytes")) and bool(reads) and reads[0].get("insts", 0) >= 2,
                "probes": probes, "faults": {}, "io": io,
                "clock_span": abs(plan["clocks"][1] - plan["clocks"][0]),
                "state": core.hash_obj([o.get("bytes", "")[:0] or core.hash_obj(o.get("bytes", "")) for o in writes[:1]])}

    def plan_features(self, plan):
        lines = pm.file_lines(plan["model"]["header"], plan["model"]["insts"])
        f = ["schema:" + plan["schema"]] + pm.sep_features(lines, plan["render"]["seps"]) + pm.value_features(plan["model"]["insts"])
        if not plan["render"]["seps"]:
            f.append("no-separators")
        if plan.get("schema_def"):
            f += pm.slot_type_features(pm.Schema(plan["schema_def"]), plan["model"]["insts"])
        return f

    def sample(self, plan, obs):
        w = pw.steps_by_op(obs["main"], "write_exchange")
        return {"schema": plan["schema"], "n_instances": len(plan["model"]["insts"]), "file_head": plan["files"]["a.p21"][:500],
                "delivery": plan["delivery"][:2], "clocks": plan["clocks"],
                "read_sev": [o.get("sev") for o in pw.steps_by_op(obs["main"], "read")],
                "o1_head": (w[0]["bytes"][:300] if w else None), "end": obs["main"]["end"].get("end")}

    def extra_coverage(self, tier, results):
        return {**pw.shipped_coverage(self.ss), "schemas": [it["name"] for it in self.ss.items], "schemas_rejected": self.ss.rejected,
                "schema_sizes": {it["name"]: {"entities": len(it["sd"]["entities"]), "types": len(it["sd"]["types"])} for it in self.ss.items}}

    # --------------------------------------------------------------- shrink
    def shrink(self, plan):
        insts = plan["model"]["insts"]
        referenced = set()
        for x in insts:
            for ref in pm.inst_refs(x):
                if ref != x["id"]:
                    referenced.add(ref)
        free = [n for n, x in enumerate(insts) if x["id"] not in referenced]
        # drop groups of unreferenced instances
        for keep_free in list_removals(free, 0):
            drop = set(free) - set(keep_free)
            if not drop:
                continue
            c = copy.deepcopy(plan)
            c["model"]["insts"] = [x for n, x in enumerate(insts) if n not in drop]
            if c["model"]["insts"]:
                yield self.finish(c)
        if plan.get("third"):
            yield self.finish(dict(plan, third=False))
        if plan.get("byname"):
            yield self.finish(dict(plan, byname=False))
        if any(x["kind"] != "whole" for d in plan["delivery"] for x in d):
            yield self.finish(dict(plan, delivery=[pw.WHOLE, pw.WHOLE, pw.WHOLE]))
            for k in range(3):
                d = list(plan["delivery"])
                if any(x["kind"] != "whole" for x in d[k]):
                    d[k] = pw.WHOLE
                    yield self.finish(dict(plan, delivery=d))
        sk = sorted(plan["render"]["seps"])
        for keep in list_removals(sk, 0):
            yield self.finish(dict(plan, render=dict(plan["render"], seps={k: plan["render"]["seps"][k] for k in keep})))
        for k in sk:
            if plan["render"]["seps"][k] != " ":
                yield self.finish(dict(plan, render=dict(plan["render"], seps=dict(plan["render"]["seps"], **{k: " "}))))
        if plan["clocks"] != [1000000000, 1000000007]:
            yield self.finish(dict(plan, clocks=[1000000000, 1000000007]))
        # simplify values
        for n, x in enumerate(insts):
            for pi, p in enumerate(x["parts"]):
                for vi, v in enumerate(p["vals"]):
                    for sv in simpler(v):
                        c = copy.deepcopy(plan)
                        c["model"]["insts"][n]["parts"][pi]["vals"][vi] = sv
                        yield self.finish(c)
        hdr = plan["model"]["header"]
        simple_hdr = pm.default_header(core.rng(0, "h"), plan["schema"], rich=False)
        if hdr != simple_hdr:
            c = copy.deepcopy(plan)
            c["model"]["header"] = simple_hdr
            yield self.finish(c)


def simpler(v):
    k = v[0]
    if k == "int" and v[1] not in (0, 1):
        yield ["int", 1]
    elif k == "real" and v[1] not in ("0.", "1."):
        yield ["real", "1."]
    elif k == "num" and v[1] not in ("1", "1."):
        # never introduce a construct the original did not have (an integer-spelled NUMBER is one)
        yield ["num", "1." if "." in v[1] else "1"]
    elif k == "str" and v[1] not in ("", "a"):
        yield ["str", "a"]
        if len(v[1]) > 2:
            yield ["str", v[1][:len(v[1]) // 2]]
    elif k == "bin" and v[1] != "0":
        yield ["bin", "0"]
    elif k == "list":
        if len(v[1]) > 1:
            yield ["list", v[1][:1]]
            yield ["list", v[1][:len(v[1]) // 2]]
            yield ["list", v[1][1:]]
        for i, x in enumerate(v[1]):
            for sx in simpler(x):
                yield ["list", v[1][:i] + [sx] + v[1][i + 1:]]
    elif k == "typed":
        for sx in simpler(v[2]):
            yield ["typed", v[1], sx]


def first_diff(a, b):
    n = min(len(a), len(b))
    i = 0
    while i < n and a[i] == b[i]:
        i += 1
    return "files differ at byte %d: expected ...%r got ...%r (lengths %d/%d)" % (i, a[max(0, i - 30):i + 40], b[max(0, i - 30):i + 40], len(a), len(b))


CHECK = C01()
