"""C06 — the EXPRESS tools are memory-safe and terminate on any input.

Fault model: storage faults on the stored EXPRESS file (truncation, flipped/NUL/high-bit bytes,
lost/duplicated/swapped tokens, tokens and remarks stretched to 10^5 characters, deep nesting,
non-ASCII bytes, missing final newline) plus synthetic lexical stress; the fault-free sweep over
every valid schema (all shipped ones) comes first.  Invariant over the run of each sanitizer-built
tool: ordinary exit (0, or a small positive status with a diagnostic), no sanitizer report, no
signal, CPU within 10 s + 1 ms per input byte.
"""
from simlib import core, faults, p21model as pm, p21work as pw, toolsim
from simlib.driver import CheckBase, list_removals

TOOLS = ["check-express", "exppp", "exp2cxx", "exp2python"]


class C06(CheckBase):
    prop = "C06"
    level = "fault_enumeration"
    engine = "toolsim"
    rule = ("plan = (tool in {check-express, exppp, exp2cxx, exp2python}, ASan+UBSan build) x (schema: shipped data/*.exp, test/unitary_schemas, kitchen sink, "
            "seeded generated schemas, seeded algorithm-rich schemas (simlib/exprgen.py: constants, WHERE/DERIVE/UNIQUE clauses, functions, procedures, rules, every statement kind, typed random expressions), synthetic lexical stress [remarks/strings/identifiers of 300..10^5 chars, 21..100-deep scopes/IFs/parentheses/"
            "select and subtype chains]) x (0..2 seeded storage faults: truncate, flip, nul, hibit, token delete/duplicate/swap, stretch, nest, "
            "non-ASCII insert, missing final newline). The first plans are the fault-free sweep tool x valid schema. "
            "non-trivial = the tool started and either the file is valid or a fault changed its bytes; distinct = hash(tool, schema, fault kinds + token class, how the run ended)")
    components_real = ["check-express", "exppp", "exp2cxx", "exp2python", "libexpress", "libexppp (ASan+UBSan build of /repo's working tree)"]
    components_stubbed = ["stored bytes damaged by the simulated disk before the tool reads them", "process environment and working directory (constructed per run)"]
    assumptions = ["ASAN_OPTIONS allow_user_segv_handler=0 so that the tools' own SIGSEGV handler cannot hide a sanitizer report",
                   "CPU budget per run 10 s + 1 ms per input byte (RLIMIT_CPU)", "a non-zero status must come with a diagnostic on stderr/stdout"]

    def setup(self, tier):
        seed = getattr(self, "seed", None)
        if seed is None:
            seed = core.default_seed(tier)
        self.valid = []
        if getattr(self, "replay_mode", False):
            return
        shipped = [s for s in toolsim.shipped_schemas() if s[2] > 0]
        pick = shipped if tier == "thorough" else shipped[:4] + [s for s in shipped[4:] if s[0] in ("ap203", "ifc2x3")][:1]
        for name, path, size in pick:
            with open(path, "rb") as f:
                self.valid.append((name, f.read().decode("latin-1")))
        for p in toolsim.unitary_schemas():
            import os
            if os.path.basename(p).startswith("fail_"):
                continue        # invalid on purpose
            with open(p, "rb") as f:
                self.valid.append(("u_" + os.path.splitext(os.path.basename(p))[0], f.read().decode("latin-1")))
        import os as _os
        with open(_os.path.join(_os.path.dirname(_os.path.dirname(_os.path.abspath(__file__))), "simlib", "data", "algo_sink.exp"), "rb") as f:
            self.valid.append(("algo_sink", f.read().decode("latin-1")))     # hand-written: functions, procedures, rules, constants, queries, USE/REFERENCE with renames
        from simlib import kitchen
        ks = kitchen.kitchen_sink()
        self.valid.append((ks["name"], pm.emit_express(ks)))
        for sd in pw.schema_defs(seed, tier, 3 if tier == "quick" else 12, label="c06", imported=False)[1:]:
            self.valid.append((sd["name"], pm.emit_express(sd)))
        for t in TOOLS:
            toolsim.tool_path("san", t)

    def n_plans(self, tier):
        return 12000 if tier == "quick" else 150000

    def time_budget(self, tier):
        return 170 if tier == "quick" else 1700

    def gen(self, seed, i, tier):
        r = core.rng(seed, "C06", i)
        nsweep = len(TOOLS) * len(self.valid)
        if i < nsweep:
            tool = TOOLS[i % len(TOOLS)]
            name, text = self.valid[i // len(TOOLS)]
            return {"property": "C06", "tool": tool, "schema": name, "schema_text": text, "faults": [], "label": "valid", "args": []}
        tool = r.choice(TOOLS)
        c = r.random()
        if c < 0.2:
            # algorithm-rich generated schema (functions, procedures, rules, typed random expressions); mostly fault-free:
            # what is under test is the printer / generator code that has to translate the expressions and statements
            from simlib import exprgen
            k = r.randrange(300 if tier == "quick" else 5000)
            name, label = "algo%d" % k, "generated-algo"
            text = exprgen.gen_algo_schema(core.rng(seed, "C06", "algo", k), name)
            fl = [] if r.random() < 0.75 else [faults.gen_express_fault(r)]
        elif c < 0.45:
            name, text, label = faults.pathological_schema(r)
            fl = [] if r.random() < 0.7 else [faults.gen_express_fault(r)]
        else:
            # mutate small files mostly: big ones cost seconds per run
            small = [v for v in self.valid if len(v[1]) < 200000] or self.valid
            name, text = r.choice(small)
            label = "mutant"
            fl = [faults.gen_express_fault(r) for _ in range(1 if r.random() < 0.7 else 2)]
        return {"property": "C06", "tool": tool, "schema": name, "schema_text": text, "faults": fl, "label": label,
                "args": r.choice([[], [], ["-l", "40"]]) if tool == "exppp" else []}

    def run(self, plan):
        text, fired, where = faults.apply_all_express(plan["schema_text"], plan["faults"])
        cpu = 10 + len(text) // 1000 + 1          # 10 s + 1 ms per input byte: generous on purpose - CPU time inflates under load
        o = toolsim.run_tool("san", plan["tool"], plan["schema"], text, {"heap_seed": None}, args=plan["args"], cpu_s=cpu, shared_dir=False)
        return {"rc": o["rc"], "sig": o["sig"], "timed_out": o["timed_out"], "stderr": o["stderr"], "stdout": o["stdout"][-500:], "n_files": o["n_files"],
                "fired": fired, "where": where, "changed": text != plan["schema_text"], "len": len(text)}

    def judge(self, plan, obs):
        ec = toolsim.end_class(obs)
        out = []
        if ec:
            out.append({"class": "C06/%s/%s" % (plan["tool"], ec),
                        "detail": "%s on %s (%s, faults %s hit %s, %d bytes): %s" % (plan["tool"], plan["schema"], plan["label"], plan["faults"], obs["where"], obs["len"],
                                                                                       obs["stderr"][:1500])})
        elif plan["label"] == "valid" and not plan["faults"] and obs["rc"] != 0:
            out.append({"class": "C06/%s/valid-schema-rejected" % plan["tool"],
                        "detail": "%s exits %s on the valid schema %s: %s" % (plan["tool"], obs["rc"], plan["schema"], obs["stderr"][-600:])})
        return out

    def features(self, plan, obs):
        end = toolsim.end_class(obs) or ("exit0" if obs["rc"] == 0 else "exit-nonzero")
        probes = {"fault_free_valid": 1 if plan["label"] == "valid" else 0, "pathological": 1 if plan["label"] not in ("valid", "mutant") else 0,
                  "tool_rejected_input": 1 if obs["rc"] not in (0, None) else 0, "tool_accepted_mutant": 1 if obs["rc"] == 0 and obs["changed"] else 0}
        return {"shape": core.hash_obj([plan["tool"], plan["schema"], plan["label"], sorted(obs["where"]), end]),
                "nontrivial": plan["label"] != "mutant" or obs["changed"],
                "probes": probes, "faults": obs["fired"], "state": core.hash_obj([plan["tool"], end, obs["n_files"] > 0])}

    def plan_features(self, plan):
        f = ["tool:" + plan["tool"], "schema:" + plan["schema"], "label:" + plan["label"]]
        f += ["fault:" + x["kind"] + (":" + x["cls"] if "cls" in x else "") for x in plan["faults"]]
        text = faults.apply_all_express(plan["schema_text"], plan["faults"])[0]
        import re as _re
        if plan["label"].startswith("long-identifier") or any(x["kind"] == "stretch" and x.get("cls") == "keyword" for x in plan["faults"]) \
                or any(len(w) > 200 for w in _re.findall(r"[A-Za-z_][A-Za-z0-9_]*", text)):
            f.append("long-identifier")          # an identifier longer than the tools' small fixed name buffers (240)
        if plan["label"].startswith("long-remark") or any(x["kind"] == "stretch" and x.get("cls") in ("comment", "tail") for x in plan["faults"]):
            f.append("long-remark")
        if plan["label"] not in ("valid", "mutant"):
            f.append("shape:" + plan["label"].rsplit("-", 1)[0])
        if open_remark_at_eof(text):
            f.append("eof-inside-remark")
        if max(len(seg) for seg in text.split(";")) > 100000 and not any(len(w) > 20000 for w in _re.findall(r"[A-Za-z_][A-Za-z0-9_]*|'[^']*'|\"[^\"]*\"|%[01]+|\(\*.*?\*\)", text, _re.S)):
            f.append("huge-statement")           # one declaration or statement of more than 100000 characters made of many small tokens
        return f

    def sample(self, plan, obs):
        return {"tool": plan["tool"], "schema": plan["schema"], "label": plan["label"], "faults": plan["faults"], "hit": obs["where"], "rc": obs["rc"], "sig": obs["sig"],
                "bytes": obs["len"]}

    def shrink(self, plan):
        for keep in list_removals(plan["faults"], 0 if plan["label"] != "mutant" else 1):
            yield dict(plan, faults=keep)
        if plan["args"]:
            yield dict(plan, args=[])
        for n, f in enumerate(plan["faults"]):
            for key, small in (("len", [300, 1000, 10000]), ("depth", [5, 30, 100])):
                if key in f:
                    for v in small:
                        if v < f[key]:
                            c = list(plan["faults"])
                            c[n] = dict(f, **{key: v})
                            yield dict(plan, faults=c)

    def extra_coverage(self, tier, results):
        return {"valid_schemas": [n for n, _ in self.valid], "tools": TOOLS,
                "fault_free_sweep": {"plans": len(TOOLS) * len(self.valid), "exhaustive": True, "note": "every tool on every valid schema of this tier, no fault"}}


def open_remark_at_eof(text):
    """true if the bytes end inside a token the lexer scans with look-ahead: an embedded remark (* ... that is still open, a tail
    remark -- ... without its newline, or a string literal '...' / "..." without its closing quote"""
    depth = 0
    i = 0
    n = len(text)
    while i < n:
        two = text[i:i + 2]
        if two == "(*":
            depth += 1
            i += 2
        elif two == "*)" and depth > 0:
            depth -= 1
            i += 2
        elif depth > 0:
            i += 1
        elif two == "--":
            j = text.find("\n", i)
            if j < 0:
                return True
            i = j + 1
        elif text[i] == "'":
            j = i + 1
            closed = False
            while j < n and text[j] != "\n":
                if text[j] == "'":
                    if j + 1 < n and text[j + 1] == "'":
                        j += 2
                        continue
                    closed = True
                    break
                j += 1
            if not closed and j >= n:
                return True
            i = j + 1
        elif text[i] == '"':
            j = i + 1
            while j < n and text[j] not in '"\n':
                j += 1
            if j >= n:
                return True
            i = j + 1
        else:
            i += 1
    return depth > 0


CHECK = C06()
