"""C13 — the instance manager stays consistent under any sequence of operations.

Simulated dimension: the operation history issued by one client (there is no
I/O, clock or second party in InstMgr, so no fault kind exists; stated in the
evidence).  Oracle: step-by-step refinement against a list+dict model
transcribed from the property statement.
"""
from simlib import core, engines
from simlib.driver import CheckBase, list_removals

ENTS = ["File_Name", "File_Schema", "File_Description", "Section_Language", "Section_Context", "File_Population"]
STATES = [1, 2, 3, 4]  # completeSE, incompleteSE, deleteSE, newSE


def spellings(ent):
    return [ent.upper(), ent.lower(), ent]


class Model:
    """The reference: an insertion-ordered list of live entries, instances by handle."""

    def __init__(self):
        self.inst = {}      # h -> {"ent","id","alive"}
        self.lst = []       # [{"h","state"}]
        self.seen_max = None  # highest id seen since the manager was last emptied

    def live_ids(self):
        return {self.inst[e["h"]]["id"]: e["h"] for e in self.lst}

    def in_mgr(self, h):
        return any(e["h"] == h for e in self.lst)

    def note_id(self, i):
        if self.seen_max is None or i > self.seen_max:
            self.seen_max = i

    def emptied(self):
        self.seen_max = None


class C13(CheckBase):
    prop = "C13"
    level = "exploration"
    engine = "mgrsim"
    rule = ("plan = seeded history of 1..60 (thorough: ..400) InstMgr operations {new instance (auto/explicit/colliding id), "
            "append (incl. same instance again), delete by node index / by instance, change state, clear, delete-all, next-id} on an owning or "
            "non-owning manager; after EVERY operation the executor dumps count, every (index -> instance, id, entity, reported index), "
            "FindFileId over an id probe set, name look-ups from every start index, MaxFileId; the oracle compares each dump with a "
            "list+dict model. non-trivial = history contains >=1 append and >=1 removing op (delete/clear/delete-all) or an id collision; "
            "distinct = distinct op-kind sequences")
    components_real = ["InstMgr", "MgrNode", "MgrNodeArray", "GenNodeArray", "std::map index", "header-schema SDAI_Application_instance objects", "Registry(HeaderSchemaInit)"]
    components_stubbed = ["none (no I/O, clock or scheduling exists in this component)"]
    assumptions = ["one client; InstMgr has no I/O, clock or concurrency, so fault_kinds_fired is empty by construction",
                   "operations are generated only within API preconditions (indices in range, handles alive)",
                   "'emptied' is read leniently: ClearInstances, DeleteInstances, or the count reaching 0"]

    def setup(self, tier):
        self.exe = engines.engine("san", "mgrsim")

    def n_plans(self, tier):
        return 20000 if tier == "quick" else 400000

    def time_budget(self, tier):
        return 100 if tier == "quick" else 1500

    # ------------------------------------------------------------ generator
    def gen(self, seed, i, tier):
        r = core.rng(seed, "C13", i)
        maxlen = 60 if tier == "quick" else (400 if r.random() < 0.1 else 80)
        # swarm: per-plan op weights, id pool, handle pool
        n_ops = 1 + int(r.random() ** 1.5 * maxlen)
        if i < 400:
            n_ops = 1 + i % 6          # sweep of very short histories first
        w = {k: r.choice([0, 1, 1, 2, 4]) for k in
             ["new", "append", "append_again", "delete_node_at", "delete_inst", "change_state", "clear", "delete_all", "next_id", "noop"]}
        w["new"] = max(w["new"], 1)
        w["append"] = max(w["append"], 2)
        idpool = r.choice([[0], [0, 1, 2, 3], [0, 0, 1, 2, 5, 7], [0, 999, 1000, 1001], [0, 1, 2147483000]])
        m = Model()
        ops = []
        nexth = 0
        if i >= 400 and r.random() < (0.01 if tier == "quick" else 0.03):
            # cross the 1024-entry default capacity of the node array
            op = {"op": "bulk", "h0": 20, "n": r.choice([1020, 1023, 1024, 1025, 1030, 2050]), "ent": r.choice(ENTS)}
            ops.append(op)
            self.model_step(m, op, None)
            n_ops = min(n_ops, 12)
            w["clear"] = w["delete_all"] = 0
        for _ in range(n_ops):
            choices = []
            for k, wt in w.items():
                if wt <= 0:
                    continue
                if k == "new" and nexth < 14:
                    choices += [k] * wt
                elif k == "append" and any(v["alive"] and not m.in_mgr(h) for h, v in m.inst.items()):
                    choices += [k] * wt
                elif k == "append_again" and m.lst:
                    choices += [k] * wt
                elif k in ("delete_node_at", "delete_inst", "change_state") and m.lst:
                    choices += [k] * wt
                elif k in ("clear", "delete_all", "next_id", "noop"):
                    choices += [k] * wt
            if not choices:
                choices = ["new"]
            k = r.choice(choices)
            if k == "new":
                op = {"op": "new", "h": nexth, "ent": r.choice(ENTS[:r.choice([1, 3, 6])]), "id": r.choice(idpool)}
                nexth += 1
            elif k == "append":
                hs = [h for h, v in m.inst.items() if v["alive"] and not m.in_mgr(h)]
                op = {"op": "append", "h": r.choice(hs), "state": r.choice(STATES)}
            elif k == "append_again":
                op = {"op": "append", "h": r.choice(m.lst)["h"], "state": r.choice(STATES)}
            elif k == "delete_node_at":
                op = {"op": "delete_node_at", "i": r.randrange(len(m.lst))}
            elif k == "delete_inst":
                op = {"op": "delete_inst", "h": r.choice(m.lst)["h"]}
            elif k == "change_state":
                op = {"op": "change_state", "i": r.randrange(len(m.lst)), "state": r.choice(STATES)}
            else:
                op = {"op": k}
            ops.append(op)
            self.model_step(m, op, None)
        plan = {"property": "C13", "owns": r.choice([0, 1]), "ops": ops}
        self.finish_plan(plan)
        return plan

    @staticmethod
    def finish_plan(plan):
        ids = set([0, 1, 2])
        ents = []
        for op in plan["ops"]:
            if op["op"] == "bulk":
                ids.update([op["n"] - 1, op["n"], op["n"] + 1, op["n"] + 2])
                if op.get("ent") and op["ent"] not in ents:
                    ents.append(op["ent"])
            if op["op"] == "new":
                ids.add(op["id"])
                ids.add(op["id"] + 1)
                if op["id"] > 0:
                    ids.add(op["id"] - 1)
                if op["ent"] not in ents:
                    ents.append(op["ent"])
        n_auto = sum(1 for op in plan["ops"] if op["op"] in ("append", "next_id"))
        base = max(ids)
        for k in range(min(n_auto, 8)):
            ids.add(k)
            ids.add(base + k + 1)
        plan["probe_ids"] = sorted(x for x in ids if -1 < x < 2 ** 31 - 1)
        names = []
        for e in (ents or ["File_Name"])[:3]:
            for s in spellings(e):
                names.append(s)
        plan["probe_names"] = names

    # ---------------------------------------------------------------- model
    @staticmethod
    def model_step(m, op, o):
        """Advance the model by one op.  `o` is the observed record of that step (None while generating):
        automatic ids are not predicted, they are *checked against the constraint* and adopted.
        Returns list of (class, detail) problems found in how the op itself behaved."""
        bad = []
        k = op["op"]
        if k == "new":
            m.inst[op["h"]] = {"ent": op["ent"], "id": op["id"], "alive": True}
        elif k == "append":
            h = op["h"]
            inst = m.inst[h]
            if m.in_mgr(h):
                pass  # appending an instance that is already managed changes nothing
            else:
                live = m.live_ids()
                need_auto = inst["id"] == 0 or inst["id"] in live
                if need_auto:
                    if o is None:
                        new = (m.seen_max if m.seen_max is not None else 0) + 1
                        while new in live:
                            new += 1
                    else:
                        new = o.get("id_after")
                        if new in live:
                            bad.append(("C13/autoid-not-fresh", "automatic id %s is carried by live instance h%s" % (new, live[new])))
                        if m.seen_max is not None and new <= m.seen_max:
                            bad.append(("C13/autoid-not-above", "automatic id %s is not above %s seen since the manager was last emptied" % (new, m.seen_max)))
                    inst["id"] = new
                elif o is not None and o.get("id_after") != inst["id"]:
                    bad.append(("C13/explicit-id-changed", "instance h%d had free explicit id %d but now carries %s" % (h, inst["id"], o.get("id_after"))))
                    inst["id"] = o.get("id_after")
                m.lst.append({"h": h, "state": op["state"]})
                m.note_id(inst["id"])
        elif k == "bulk":
            ids = o.get("ids_after") if o is not None else None
            for q in range(op["n"]):
                h = op["h0"] + q
                live = m.live_ids() if (ids is not None and q < 3) else None
                if ids is None:
                    new = (m.seen_max if m.seen_max is not None else 0) + 1
                else:
                    new = ids[q] if q < len(ids) else None
                    if m.seen_max is not None and (new is None or new <= m.seen_max):
                        bad.append(("C13/autoid-not-above", "bulk: automatic id %s is not above %s" % (new, m.seen_max)))
                        if new is None:
                            new = m.seen_max + 1
                m.inst[h] = {"ent": op.get("ent", "File_Name"), "id": new, "alive": True}
                m.lst.append({"h": h, "state": 1})
                m.note_id(new)
        elif k == "delete_node_at":
            e = m.lst.pop(op["i"])
            m.inst[e["h"]]["alive"] = False
        elif k == "delete_inst":
            idx = [j for j, e in enumerate(m.lst) if e["h"] == op["h"]][0]
            m.lst.pop(idx)
            m.inst[op["h"]]["alive"] = False
        elif k == "change_state":
            m.lst[op["i"]]["state"] = op["state"]
        elif k == "clear":
            m.lst = []
            m.emptied()
        elif k == "delete_all":
            for e in m.lst:
                m.inst[e["h"]]["alive"] = False
            m.lst = []
            m.emptied()
        elif k == "next_id":
            if o is None:
                m.note_id((m.seen_max if m.seen_max is not None else 0) + 1)
            else:
                new = o.get("ret")
                if new in m.live_ids():
                    bad.append(("C13/autoid-not-fresh", "NextFileId returned %s which a live instance carries" % new))
                if m.seen_max is not None and new <= m.seen_max:
                    bad.append(("C13/autoid-not-above", "NextFileId returned %s, not above %s" % (new, m.seen_max)))
                m.note_id(new)
        if not m.lst and k in ("delete_node_at", "delete_inst"):
            m.emptied()   # lenient reading of "emptied"
        return bad

    # ------------------------------------------------------------------ run
    def run(self, plan):
        obs, end = core.executor([self.exe]).run(plan)
        end = dict(end)
        return {"steps": obs, "end": end}

    def harness_error(self, plan, obs):
        for o in obs["steps"]:
            if "error" in o or "harness_exception" in o or "garbled" in o:
                return "executor: %s" % (o.get("error") or o.get("harness_exception") or o.get("garbled"))
        if obs["end"].get("end") in ("badplan", "harness"):
            return "executor end=%s" % obs["end"]
        return None

    # ---------------------------------------------------------------- judge
    def judge(self, plan, obs):
        out = []
        seen = set()

        def add(klass, detail):
            if klass not in seen:
                seen.add(klass)
                out.append({"class": klass, "detail": detail})

        m = Model()
        steps = [o for o in obs["steps"] if "step" in o]
        for n, op in enumerate(plan["ops"]):
            if n >= len(steps):
                break
            o = steps[n]
            for klass, detail in self.model_step(m, op, o):
                add(klass, "step %d %s: %s" % (n, op["op"], detail))
            where = "after step %d (%s)" % (n, op["op"])
            # clause 1: count
            if o["count"] != len(m.lst):
                add("C13/count", "%s: InstanceCount()=%d but %d live instances" % (where, o["count"], len(m.lst)))
            # clause 2: order and reported index
            for j, e in enumerate(m.lst):
                if j >= len(o["list"]) or o["list"][j] is None:
                    add("C13/order", "%s: no instance at index %d, model has h%d" % (where, j, e["h"]))
                    break
                got = o["list"][j]
                if got["h"] != e["h"] or got["hn"] != e["h"]:
                    add("C13/order", "%s: index %d holds h%s, expected h%d (insertion order of survivors)" % (where, j, got["h"], e["h"]))
                    break
                if got["idx"] != j:
                    add("C13/index", "%s: instance at position %d reports index %d" % (where, j, got["idx"]))
                if got["id"] != m.inst[e["h"]]["id"]:
                    add("C13/id-changed", "%s: h%d carries id %d, expected %d" % (where, e["h"], got["id"], m.inst[e["h"]]["id"]))
            # clause 3: look-up by id
            live = m.live_ids()
            for ids, got in o["find"].items():
                exp = live.get(int(ids), -1)
                if got != exp:
                    add("C13/find", "%s: FindFileId(%s) -> h%s, expected h%s" % (where, ids, got, exp))
                    break
            # clause 5: max id
            if live and o["max"] < max(live):
                add("C13/max", "%s: MaxFileId()=%d below live id %d" % (where, o["max"], max(live)))
            # clause 6: name look-up
            for name, rec in o["names"].items():
                # (the count by name is the companion of the look-up by name: both walk the same list)
                nlive = sum(1 for e_ in m.lst if m.inst[e_["h"]]["ent"].lower() == name.lower())
                if "kc" in rec and rec["kc"] != nlive:
                    add("C13/name-count", "%s: EntityKeywordCount(%s) = %s, %d live instances carry that name" % (where, name, rec["kc"], nlive))
                frm = rec["from"]
                for s in range(len(frm)):
                    exp = -1
                    for j in range(s, len(m.lst)):
                        if m.inst[m.lst[j]["h"]]["ent"].lower() == name.lower():
                            exp = m.lst[j]["h"]
                            break
                    if s < len(frm) and frm[s] != exp:
                        add("C13/name", "%s: look-up of %s from %d -> h%s, expected h%s" % (where, name, s, frm[s], exp))
                        break
        ec = core.end_class(obs["end"])
        if ec:
            add("C13/crash/" + ec, (obs["end"].get("stderr") or "")[:600])
        elif len(steps) < len(plan["ops"]):
            add("C13/crash/incomplete", "executor produced %d of %d steps" % (len(steps), len(plan["ops"])))
        return out

    # ------------------------------------------------------------- features
    def features(self, plan, obs):
        kinds = [op["op"] for op in plan["ops"]]
        removing = any(k in ("delete_node_at", "delete_inst", "clear", "delete_all") for k in kinds)
        m = Model()
        probes = {"dup_id_append": 0, "same_instance_again": 0, "auto_id": 0, "delete_middle": 0, "reappend_after_clear": 0,
                  "array_grew_past_default": 0}
        if any(op["op"] == "bulk" and op["n"] >= 1024 for op in plan["ops"]):
            probes["array_grew_past_default"] = 1
        cleared = set()
        for op in plan["ops"]:
            if op["op"] == "append":
                h = op["h"]
                if m.in_mgr(h):
                    probes["same_instance_again"] += 1
                else:
                    if m.inst[h]["id"] == 0:
                        probes["auto_id"] += 1
                    elif m.inst[h]["id"] in m.live_ids():
                        probes["dup_id_append"] += 1
                    if h in cleared:
                        probes["reappend_after_clear"] += 1
            if op["op"] == "bulk":
                pass
            if op["op"] == "delete_node_at" and 0 < op["i"] < len(m.lst) - 1:
                probes["delete_middle"] += 1
            if op["op"] == "delete_inst":
                idx = [j for j, e in enumerate(m.lst) if e["h"] == op["h"]][0]
                if 0 < idx < len(m.lst) - 1:
                    probes["delete_middle"] += 1
            if op["op"] == "clear":
                cleared |= set(e["h"] for e in m.lst)
            self.model_step(m, op, None)
        steps = [o for o in obs["steps"] if "step" in o]
        return {"shape": core.hash_obj([plan["owns"]] + kinds),
                "nontrivial": ("append" in kinds) and (removing or probes["dup_id_append"] > 0 or probes["same_instance_again"] > 0),
                "probes": probes, "faults": {},
                "state": core.hash_obj([(o["count"], [(e or {}).get("id") for e in o["list"]]) for o in steps[-1:]])}

    def plan_features(self, plan):
        return []

    def sample(self, plan, obs):
        return {"owns": plan["owns"], "ops": plan["ops"][:12], "n_ops": len(plan["ops"]),
                "end": obs["end"].get("end"),
                "last_dump": {k: v for k, v in (obs["steps"][-2] if len(obs["steps"]) > 1 else {}).items() if k in ("count", "max", "list")}}

    # --------------------------------------------------------------- shrink
    def shrink(self, plan):
        ops = plan["ops"]
        for cand in list_removals(ops, 1):
            p = self.repair(dict(plan, ops=cand))
            if p is not None:
                yield p
        # simplify arguments
        for j, op in enumerate(ops):
            if op["op"] == "new" and (op["id"] not in (0, 1) or op["ent"] != "File_Name"):
                for newid in ([0, 1] if op["id"] not in (0, 1) else [op["id"]]):
                    c = [dict(o) for o in ops]
                    c[j]["id"] = newid
                    c[j]["ent"] = "File_Name"
                    p = self.repair(dict(plan, ops=c))
                    if p is not None:
                        yield p
            if op["op"] in ("append", "change_state") and op.get("state") != 1:
                c = [dict(o) for o in ops]
                c[j]["state"] = 1
                yield dict(plan, ops=c)
            if op["op"] == "bulk" and op["n"] > 2:
                for nn in (2, op["n"] // 2, op["n"] - 1):
                    c = [dict(o) for o in ops]
                    c[j]["n"] = nn
                    p = self.repair(dict(plan, ops=c))
                    if p is not None:
                        yield p
        if plan["owns"]:
            yield dict(plan, owns=0)

    def repair(self, plan):
        """Drop ops whose preconditions no longer hold after a removal; None if nothing is left."""
        m = Model()
        ops = []
        for op in plan["ops"]:
            k = op["op"]
            ok = True
            if k == "append":
                ok = op["h"] in m.inst and m.inst[op["h"]]["alive"]
            elif k in ("delete_node_at", "change_state"):
                ok = 0 <= op["i"] < len(m.lst)
            elif k == "delete_inst":
                ok = op["h"] in m.inst and m.inst[op["h"]]["alive"] and m.in_mgr(op["h"])
            if not ok:
                continue
            ops.append(op)
            self.model_step(m, op, None)
        if not ops:
            return None
        p = dict(plan, ops=ops)
        self.finish_plan(p)
        return p


CHECK = C13()
