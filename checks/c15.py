"""C15 — strict and lenient handling of missing required attributes is as documented.

Fault model: an incomplete producer — exactly one attribute value of a conforming stored file is
replaced by `$`; configuration: strict in {on, off}; delivery schedule seeded.  The fault-free twin
is executed as well and must be clean for the plan to count.
"""
import copy

from simlib import core, p21model as pm, p21work as pw

SUBST = {"int": ["int", 0], "real": ["real", "0."], "number": ["num", "0"], "string": ["str", ""]}
OTHER_KINDS = ("bool", "logical", "binary", "enum", "ent", "agg", "select")


class C15(pw.P21Check):
    prop = "C15"
    level = "fault_enumeration"
    label = "c15"
    rule = ("plan = conforming file (generator of C01; twin required clean) with exactly one attribute value replaced by `$` at a seeded "
            "(instance, part, slot) position x strict in {on, off} x delivery schedule. Cases judged, one clause of the statement each: "
            "OPTIONAL slot => accepted exactly like the twin; required & strict => read fails (severity <= INCOMPLETE); required & lenient & "
            "type INTEGER/REAL/NUMBER/STRING => accepted with SEVERITY_USERMSG and 0 / 0. / 0 / '' written back in that slot; required & any other "
            "kind => read fails in both modes. Slots whose type is a *defined* type over a simple type are not targeted (the statement names the "
            "simple types). non-trivial = twin clean and a value was actually replaced; distinct = hash(schema, slot category, optional?, strict, "
            "position class, in complex part?)")
    components_real = ["STEPattribute::STEPread null/filler pre-check", "SDAI_Application_instance::STEPread", "STEPcomplex::STEPread", "STEPfile reader/writer", "generated schema library"]
    components_stubbed = ["read(2) byte count (delivery schedule)", "the one value the simulated producer left out"]
    assumptions = ["'accepts the file with a user message' is read as Error().severity() == SEVERITY_USERMSG after the read",
                   "'the read fails' is read as severity <= SEVERITY_INCOMPLETE (the p21read exit rule)"]
    sizes = [1, 2, 3, 5]

    def n_plans(self, tier):
        return 20000 if tier == "quick" else 400000

    def time_budget(self, tier):
        return 120 if tier == "quick" else 1200

    def gen(self, seed, i, tier):
        r = core.rng(seed, "C15", i)
        nbase = 330 if tier == "quick" else 3000
        plan = self.base_plan(seed, r.randrange(nbase))
        plan["strict"] = i % 2
        plan["want"] = ["optional", "required-subst", "required-other", "any"][(i // 2) % 4]
        plan["pos"] = r.randint(0, 10 ** 6)
        plan["spelling"] = r.choice(["$", "$", "$", "empty"])      # the statement: "an unset (`$` or empty) value"
        plan["delivery"] = pw.gen_delivery(r, 2) if r.random() < 0.3 else [{"kind": "whole"}, {"kind": "whole"}]
        return self.finish(plan)

    def finish(self, plan):
        plan = dict(plan)
        text, rn = self.render_model(plan["model"], plan["render"])
        plan["render"] = rn
        sch = self.schema_of(plan)
        cm, info = null_out(sch, plan["model"], plan["want"], plan["pos"], plan.get("spelling", "$"))
        plan["applied"] = info
        files = {"twin.p21": text}
        if cm is not None:
            files["bad.p21"] = pm.render(pm.file_lines(cm["header"], cm["insts"]), rn["seps"], rn.get("eol", "\n"), rn.get("spell"))
        plan["files"] = files
        return plan

    def run(self, plan):
        exe = self.exe(plan)
        ops = lambda d: [{"op": "read", "file": "a.p21", "delivery": d}, {"op": "write_exchange", "into": "o1", "clock": 1000000000}]
        twin = pw.run_plan(exe, {"files": {"a.p21": plan["files"]["twin.p21"]}, "strict": plan["strict"], "ops": ops([{"kind": "whole"}, {"kind": "whole"}])})
        bad = None
        if "bad.p21" in plan["files"]:
            bad = pw.run_plan(exe, {"files": {"a.p21": plan["files"]["bad.p21"]}, "strict": plan["strict"], "ops": ops(plan["delivery"])})
        return {"twin": twin, "bad": bad}

    def harness_error(self, plan, obs):
        for k in ("twin", "bad"):
            if obs[k] is not None:
                e = pw.exec_harness_error(obs[k])
                if e:
                    return e
        return None

    @staticmethod
    def twin_clean(obs):
        reads = pw.steps_by_op(obs["twin"], "read")
        return obs["twin"]["end"].get("end") == "ok" and reads and reads[0].get("sev") == 3

    def judge(self, plan, obs):
        if obs["bad"] is None or not self.twin_clean(obs):
            return []
        info = plan["applied"]
        bad = obs["bad"]
        mode = "strict" if plan["strict"] else "lenient"
        tag = "%s/%s%s" % (info["case"], info["cat"], "/complex-part" if info["in_complex"] else "")
        ec = core.end_class(bad["end"])
        if ec:
            return [{"class": "C15/abnormal-end/" + tag, "detail": ec + " " + (bad["end"].get("stderr") or "")[:500]}]
        rd = pw.steps_by_op(bad, "read")[0]
        wr = pw.steps_by_op(bad, "write_exchange")
        sev = rd["sev"]
        out = []
        where = "#%d %s slot %d (%s, %s)" % (info["target_id"], info["ent"], info["slot"], info["cat"], info["case"])
        if info["case"] == "optional":
            if sev != 3:
                out.append({"class": "C15/optional-not-accepted/%s/%s" % (mode, tag), "detail": "%s: `$` for an OPTIONAL attribute gave severity %d: %s" % (where, sev, rd.get("detailmsg", "")[:300])})
        elif plan["strict"]:
            if sev > 1:
                out.append({"class": "C15/strict-accepts/%s" % tag, "detail": "%s: strict mode read ended with severity %d (must be <= 1)" % (where, sev)})
        elif info["case"] == "required-subst":
            if sev != 2:
                out.append({"class": "C15/lenient-not-usermsg/%s" % tag, "detail": "%s: lenient mode must accept with a user message (severity 2), got %d: %s" % (
                    where, sev, rd.get("detailmsg", "")[:300])})
            exp = SUBST[info["kind"]]
            got = self.written_value(plan, wr, info)
            if got is None:
                out.append({"class": "C15/lenient-nothing-written/%s" % tag, "detail": "%s: no parsable output to look the substituted value up in" % where})
            elif pm.value_diff(exp, got) is not None:
                out.append({"class": "C15/lenient-wrong-substitute/%s" % tag, "detail": "%s: written back %s, expected %s" % (where, got, exp)})
        else:
            if sev > 1:
                out.append({"class": "C15/lenient-accepts-other-kind/%s" % tag, "detail": "%s: a required %s may not be defaulted; lenient read ended with severity %d" % (where, info["cat"], sev)})
        return out

    @staticmethod
    def written_value(plan, wr, info):
        if not wr or not wr[0].get("bytes"):
            return None
        try:
            got = pm.parse(wr[0]["bytes"])
        except pm.P21SyntaxError:
            return None
        for x in got["insts"]:
            if x["id"] == info["target_id"]:
                for p in x["parts"]:
                    if p["ent"] == info["ent"] and info["slot"] < len(p["vals"]):
                        return p["vals"][info["slot"]]
        return None

    def features(self, plan, obs):
        info = plan.get("applied") or {}
        applied = obs["bad"] is not None
        clean = self.twin_clean(obs)
        rd = (pw.steps_by_op(obs["bad"], "read") or [{}])[0] if applied else {}
        probes = {"construct_unavailable": 0 if applied else 1, "twin_not_clean": 0 if clean else 1,
                  "in_complex_part": 1 if info.get("in_complex") else 0, "inherited_slot": 1 if info.get("inherited") else 0,
                  "strict_runs": plan["strict"], "lenient_runs": 1 - plan["strict"]}
        for c in ("optional", "required-subst", "required-other"):
            probes["case_" + c] = 1 if info.get("case") == c else 0
        return {"shape": core.hash_obj([plan["schema"], info.get("ent"), info.get("slot"), info.get("cat"), info.get("case"), plan["strict"], info.get("posclass"), info.get("in_complex"),
                                        pw.delivery_class(plan["delivery"])]),
                "nontrivial": applied and clean, "probes": probes, "faults": {"null-out": 1} if applied else {},
                "state": core.hash_obj([info.get("case"), info.get("cat"), plan["strict"], rd.get("sev")])}

    def plan_features(self, plan):
        info = plan.get("applied") or {}
        f = ["strict" if plan["strict"] else "lenient", "case:" + str(info.get("case")), "slot-type:" + str(info.get("cat"))]
        if plan.get("spelling", "$") != "$":
            f.append("unset-spelled-empty")
        if info.get("in_complex"):
            f.append("target-in-complex-part")
        if info.get("cat") in ("int", "real", "number"):
            f.append("slot-numeric")
        if info.get("redeclared"):
            f.append("target-redeclared-slot")
        return f

    def sample(self, plan, obs):
        rd = (pw.steps_by_op(obs["bad"], "read") or [{}])[0] if obs["bad"] else {}
        return {"schema": plan["schema"], "strict": plan["strict"], "applied": plan.get("applied"),
                "bad_file_data": (plan["files"].get("bad.p21") or "")[-400:], "read_sev": rd.get("sev")}

    def shrink(self, plan):
        info = plan.get("applied") or {}
        if info.get("target_id") is None:
            return
        if plan.get("spelling", "$") != "$":
            yield self.finish(dict(plan, spelling="$"))
        for c in self.shrink_model(plan, keep_ids=[info["target_id"]]):
            ci = c.get("applied") or {}
            if ci.get("target_id") == info["target_id"] and ci.get("slot") == info["slot"] and ci.get("ent") == info["ent"]:
                yield c


def null_out(sch, model, want, pos, spelling="$"):
    insts = model["insts"]
    cands = []
    for n, inst in enumerate(insts):
        for pi, p in enumerate(inst["parts"]):
            ent = [e for e in sch.order if e.upper() == p["ent"]]
            if not ent:
                continue
            ent = ent[0]
            sl = sch.internal_slots(ent) if len(inst["parts"]) == 1 else [(ent, a, False) for a in sch.own_slots(ent)]
            if len(sl) != len(p["vals"]):
                continue
            for si, ((owner, a, derived), v) in enumerate(zip(sl, p["vals"])):
                if derived or v[0] in ("null", "derived"):
                    continue
                t = a["type"]
                rt = sch.resolve(t)
                if a.get("optional"):
                    case = "optional"
                    kind = rt["k"]
                elif t["k"] in SUBST:
                    case, kind = "required-subst", t["k"]       # directly INTEGER / REAL / NUMBER / STRING
                elif t["k"] == "def" and rt["k"] in SUBST:
                    continue                                      # defined type over a simple type: the statement does not decide it
                elif rt["k"] in OTHER_KINDS:
                    case, kind = "required-other", rt["k"]
                else:
                    continue
                if want != "any" and case != want:
                    continue
                redecl = any(x.get("redecl") and x["name"] == a["name"] for e in sch.order for x in sch.ents[e]["attrs"])
                cands.append((n, pi, si, case, kind, pm.type_category(sch, t), owner != ent, redecl))
    if not cands:
        return None, {}
    n, pi, si, case, kind, cat, inherited, redecl = cands[pos % len(cands)]
    cm = copy.deepcopy(model)
    cm["insts"][n]["parts"][pi]["vals"][si] = ["null"] if spelling == "$" else ["null", "empty"]
    nv = len(insts[n]["parts"][pi]["vals"])
    info = {"target_id": insts[n]["id"], "ent": insts[n]["parts"][pi]["ent"], "part": pi, "slot": si, "case": case, "kind": kind, "cat": cat,
            "in_complex": len(insts[n]["parts"]) > 1, "inherited": inherited, "redeclared": redecl,
            "posclass": "only" if nv == 1 else ("first" if si == 0 else ("last" if si == nv - 1 else "middle"))}
    return cm, info


CHECK = C15()
