"""C19 — the Python run-time's ARRAY / LIST / BAG / SET containers accept an
operation exactly when EXPRESS allows it and report size, bounds, indices and
uniqueness like a list / multiset / set that underwent the same operations.

Engine "pysim": the operation history of one client is executed against the
real classes of /repo/src/exp2python/python/stepcode (imported from the current
working tree inside the worker).  There is no I/O, clock or second party in
this component, so no fault kind exists (stated in the evidence).

Oracle: step-by-step refinement against reference models transcribed from the
property statement and ISO 10303-11 (NOT from the Python code):
  ARRAY  fixed index window [lo,hi] of slots, slots start unset
  LIST   Python list (1-based indices)
  BAG    multiset
  SET    set
accept / refuse is compared by kind only (never by exception class or text).

Soundness restrictions (operations on which two defensible readings of the
statement / API disagree are NOT generated, and are left unjudged when a
hand-written replay contains them):
  * LIST bounds: the run-time treats them as an index window, ISO 10303-11 as
    element counts.  LIST workloads therefore use lower bound 0 or 1, never
    index 0 when the lower bound is 0, and assign indices densely (index =
    size+1, or an existing index); reads only of existing indices or of indices
    that both readings refuse (<= -1, 0 when lower bound >= 1, > upper bound).
    LISTs with lower bound >= 2 only get operations both readings refuse.
    VALUE_UNIQUE of a duplicate-free LIST may be UNKNOWN unless the list is
    bounded, has lower bound 1 and is completely filled.
  * BAG / SET capacity = bound_2 ("no more elements than the upper bound").
  * adding to a SET a value it already holds may be accepted (as a no-op) or
    refused; either way the size must not change.
  * re-assigning to a UNIQUE ARRAY/LIST slot the value it already holds is not
    generated.
  * elements: of the declared base type (accept) or clearly of another type
    (refuse); int into REAL, raw Python int/float/str into the matching EXPRESS
    type, bool, None and subclass relations are not generated.
"""
import bisect
import sys

from simlib import core
from simlib.driver import CheckBase, list_removals

import os as _os
RUNTIME = _os.path.join(_os.environ.get("VERIF_REPO", "/repo"), "src/exp2python/python")
KINDS = ["ARRAY", "LIST", "BAG", "SET"]
BASES = ["INTEGER", "REAL", "STRING", "ENUM", "AGG"]
ENUM_NAMES = ["a", "b", "c", "d", "e", "f"]
POOLS = {
    "INTEGER": [0, 1, 2, -1, 7, 1000000],
    "REAL": [0.0, 1.0, 2.5, -1.5, 7.25, 1000000.0],
    "STRING": ["a", "b", "", "ab", "A", "zz"],
    "ENUM": ENUM_NAMES,
    "AGG": [0, 1, 2, 3, 4, 5],
}
# elements that are clearly NOT of the declared base type
WRONG = {
    "INTEGER": [["STRING", "a"], ["pystr", "x"], ["REAL", 2.5], ["ENUM", 1, "a"]],
    "REAL": [["STRING", "a"], ["pystr", "x"], ["ENUM", 1, "a"]],
    "STRING": [["INTEGER", 1], ["pyint", 7], ["REAL", 2.5], ["ENUM", 1, "a"]],
    "ENUM": [["pystr", "zz"], ["INTEGER", 1], ["ENUM", 2, "a"], ["STRING", "a"]],
    "AGG": [["INTEGER", 1], ["pystr", "x"], ["AGG", "LIST", "INTEGER", 9], ["AGG", "ARRAY", "REAL", 9]],
}
# elements that are NOT of the declared base type although Python compares them equal to (and hashes them like) a
# value of the base type: REAL(1.0) == INTEGER(1), True == 1 == 1.0.  (INTEGER into a REAL aggregate is not listed:
# EXPRESS lets an integer stand for a real.)  Offered while the equal value is held, they separate "checked the type"
# from "found it in the container".
WRONG_EQ = {
    "INTEGER": [[["REAL", float(k)], ("int", k)] for k in POOLS["INTEGER"]]
               + [[["pybool", True], ("int", 1)], [["pybool", False], ("int", 0)]],
    "REAL": [[["pybool", True], ("float", 1.0)], [["pybool", False], ("float", 0.0)]],
    "STRING": [], "ENUM": [], "AGG": [],
}
QUERIES = {"SIZEOF": "get_size", "HIINDEX": "get_hiindex", "LOINDEX": "get_loindex",
           "HIBOUND": "get_hibound", "LOBOUND": "get_lobound", "VALUE_UNIQUE": "get_value_unique"}
QNAMES = list(QUERIES)
METHODS = [QUERIES[q] for q in QNAMES]
MISMATCH_NAME = {"get_size": "size", "get_hiindex": "hiindex", "get_loindex": "loindex",
                 "get_hibound": "hibound", "get_lobound": "lobound", "get_value_unique": "unique"}
PROBES = ["add_when_full", "dup_into_unique", "dup_into_set", "read_unset", "index_below_lo", "index_above_hi",
          "unbounded_upper", "overwrite_then_reuse_value", "wrong_type", "invalid_construct", "negative_or_zero_lower"]


def mk(base, j):
    """j-th element of the pool of `base`, as a plan element."""
    v = POOLS[base][j]
    if base == "ENUM":
        return ["ENUM", 1, v]
    if base == "AGG":
        return ["AGG", "ARRAY", "INTEGER", v]
    return [base, v]


def is_right(elem, base):
    if base == "ENUM":
        return elem[0] == "ENUM" and elem[1] == 1
    if base == "AGG":
        return elem[:3] == ["AGG", "ARRAY", "INTEGER"]
    return elem[0] == base


def is_wrong(elem, base):
    return elem in WRONG[base] or any(elem == w and type(elem[1]) is type(w[1]) for w, _ in WRONG_EQ[base])


def key(elem):
    """What the model stores / what a read is expected to return: (category, value)."""
    t = elem[0]
    if t in ("INTEGER", "pyint"):
        return ("int", elem[1])
    if t == "REAL":
        return ("float", elem[1])
    if t in ("STRING", "pystr"):
        return ("str", elem[1])
    if t == "ENUM":
        return ("enum", "E%d.%s" % (elem[1], elem[2]))
    if t == "AGG":
        return ("agg", elem[3])
    return ("other", str(elem))


def is_int(x):
    return isinstance(x, int) and not isinstance(x, bool)


# =================================================================== model
class Model:
    """Reference semantics.  expect(op) -> (verdict, reason) with verdict one of
    accept / refuse / either (both defensible, state must not change) / unjudged."""

    def __init__(self, plan):
        self.kind = plan["kind"]
        self.lo = plan["lo"]
        self.hi = plan["hi"]
        self.base = plan["base"]
        self.unique = bool(plan.get("unique"))
        self.optional = bool(plan.get("optional"))
        self.slots = {}     # ARRAY: index -> key
        self.items = []     # LIST (by position) / BAG / SET: keys
        self.gone = set()   # keys once held by a slot and overwritten since

    # ---- construction
    def expect_construct(self):
        if self.kind not in KINDS or self.base not in BASES:
            return ("unjudged", "unknown-kind")
        if not is_int(self.lo):
            return ("refuse", "bad-bound")
        if self.hi is None:
            if self.kind == "ARRAY":
                return ("refuse", "bad-bound")
        elif not is_int(self.hi):
            return ("refuse", "bad-bound")
        if self.kind != "ARRAY" and self.lo < 0:
            return ("refuse", "negative-lower")
        if self.hi is not None and self.lo > self.hi:
            return ("refuse", "lo-gt-hi")
        return ("accept", "valid")

    # ---- helpers
    def size(self):
        if self.kind == "ARRAY":
            return self.hi - self.lo + 1
        return len(self.items)

    def present(self):
        return list(self.slots.values()) if self.kind == "ARRAY" else list(self.items)

    def bounded(self):
        return self.hi is not None

    def full(self):
        return self.hi is not None and len(self.items) >= self.hi

    def _elem(self, elem):
        if not isinstance(elem, list) or not elem:
            return "unjudged"
        if is_right(elem, self.base):
            return "right"
        if is_wrong(elem, self.base):
            return "wrong"
        return "unjudged"

    # ---- expectations
    def expect(self, op):
        k = op.get("op")
        if k == "q":
            return ("accept", "query") if op.get("m") in QUERIES else ("unjudged", "unknown-query")
        if k == "add":
            if self.kind not in ("BAG", "SET"):
                return ("unjudged", "no-such-method")
            return self._expect_add(op)
        if k in ("set", "get"):
            if self.kind not in ("ARRAY", "LIST") or not is_int(op.get("i")):
                return ("unjudged", "no-such-method")
            if self.kind == "ARRAY":
                return self._expect_array(op)
            return self._expect_list(op)
        return ("unjudged", "unknown-op")

    def _expect_add(self, op):
        e = self._elem(op.get("v"))
        if e == "unjudged":
            return ("unjudged", "ambiguous-element")
        if e == "wrong":
            return ("refuse", "wrong-type")
        kk = key(op["v"])
        if self.kind == "SET" and kk in self.items:
            return ("either", "dup")
        if self.full():
            return ("refuse", "full")
        return ("accept", "room")

    def _expect_array(self, op):
        i = op["i"]
        if i < self.lo:
            return ("refuse", "index-below-lo")
        if i > self.hi:
            return ("refuse", "index-above-hi")
        if op["op"] == "get":
            if i in self.slots:
                return ("accept", "present")
            return ("accept", "unset-optional") if self.optional else ("refuse", "unset")
        e = self._elem(op.get("v"))
        if e == "unjudged":
            return ("unjudged", "ambiguous-element")
        if e == "wrong":
            return ("refuse", "wrong-type")
        kk = key(op["v"])
        if self.unique:
            if self.slots.get(i) == kk:
                return ("either", "same-slot-same-value")
            if kk in self.slots.values():
                return ("refuse", "dup-unique")
            if kk in self.gone:
                return ("accept", "reuse-after-overwrite")
        return ("accept", "valid")

    def _expect_list(self, op):
        i = op["i"]
        n = len(self.items)
        if i <= -1 or (i == 0 and self.lo >= 1):
            return ("refuse", "index-below-lo")
        if self.hi is not None and i > self.hi:
            if op["op"] == "set" and i == n + 1 and self.lo <= 1:
                return ("refuse", "append-when-full")
            return ("refuse", "index-above-hi")
        if i == 0 or self.lo > 1:
            return ("unjudged", "window-vs-count")
        if op["op"] == "get":
            if 1 <= i <= n:
                return ("accept", "present")
            return ("unjudged", "beyond-size")
        if i > n + 1:
            return ("unjudged", "gap")
        e = self._elem(op.get("v"))
        if e == "unjudged":
            return ("unjudged", "ambiguous-element")
        if e == "wrong":
            return ("refuse", "wrong-type")
        kk = key(op["v"])
        pre = "" if self.hi is not None else "unbounded-"
        if self.unique:
            if i <= n and self.items[i - 1] == kk:
                return ("either", "same-slot-same-value")
            if kk in self.items:
                return ("refuse", "dup-unique")
            if kk in self.gone:
                return ("accept", pre + "reuse-after-overwrite")
        return ("accept", pre + ("append" if i == n + 1 else "overwrite"))

    def generable(self, op):
        v, why = self.expect(op)
        return v != "unjudged" and why != "same-slot-same-value"

    # ---- state change of an ACCEPTED op (verdict accept or either)
    def apply(self, op, verdict):
        if verdict != "accept":
            return
        k = op["op"]
        if k == "add":
            self.items.append(key(op["v"]))
        elif k == "set":
            kk = key(op["v"])
            if self.kind == "ARRAY":
                old = self.slots.get(op["i"])
                self.slots[op["i"]] = kk
            else:
                i = op["i"]
                old = None
                if i == len(self.items) + 1:
                    self.items.append(kk)
                else:
                    old = self.items[i - 1]
                    self.items[i - 1] = kk
            if old is not None and old != kk:
                self.gone.add(old)
            self.gone.discard(kk)

    # ---- reported values
    def read_value(self, i):
        """expected (category, value) of an accepted read, None = unset"""
        if self.kind == "ARRAY":
            return self.slots.get(i)
        return self.items[i - 1]

    def query_expect(self, method):
        """-> (list of acceptable encodings, case label) or None when unjudged"""
        n = self.size()
        if method == "get_size":
            return ([("int", n)], "")
        if method == "get_hiindex":
            return ([("int", self.hi if self.kind == "ARRAY" else n)], "")
        if method == "get_loindex":
            return ([("int", self.lo if self.kind == "ARRAY" else 1)], "")
        if method == "get_hibound":
            return ([None if self.hi is None else ("int", self.hi)], "")
        if method == "get_lobound":
            return ([("int", self.lo)], "")
        if method == "get_value_unique":
            if self.base == "AGG":
                return None     # value equality of nested aggregates is not decided by the statement
            vals = self.present()
            dup = len(set(vals)) < len(vals)
            T, F, U = ("bool", True), ("bool", False), ("unknown", None)
            if self.kind == "ARRAY":
                unset = len(vals) < n
                if dup:
                    # with unset slots both FALSE (ISO 10303-11 15.29 tests duplicates first) and UNKNOWN (the run-time's
                    # documented reading: indeterminate items dominate) are defensible; only a TRUE would be wrong
                    return ([F, U], "dup-with-unset") if unset else ([F], "dup")
                return ([U], "unset") if unset else ([T], "all-distinct")
            if self.kind == "LIST":
                strict = self.hi is not None and self.lo == 1 and len(vals) == self.hi
                if dup:
                    return ([F], "dup") if strict else ([F, U], "dup-partly-filled")
                return ([T], "all-distinct") if strict else ([T, U], "all-distinct")
            if dup:
                return ([F], "dup")
            return ([T], "all-distinct")
        return None

    def state(self):
        if self.kind == "ARRAY":
            return [[i, list(self.slots[i])] for i in sorted(self.slots)]
        if self.kind == "LIST":
            return [list(x) for x in self.items]
        return sorted([list(x) for x in self.items], key=core.jdump)


def plan_ok(plan):
    """Plan-level generation restrictions."""
    if plan.get("kind") not in KINDS or plan.get("base") not in BASES:
        return False
    if plan["kind"] != "ARRAY" and plan.get("optional"):
        return False
    if plan["kind"] in ("BAG", "SET") and plan.get("unique"):
        return False
    if plan["base"] == "AGG" and (plan.get("unique") or plan["kind"] == "SET"):
        return False
    if plan["kind"] == "ARRAY" and is_int(plan["lo"]) and is_int(plan["hi"]) and plan["hi"] - plan["lo"] > 64:
        return False
    return True


# ================================================================= run-time
_rt = None


class _RT:
    pass


def runtime():
    """Import the run-time under test from the current working tree of /repo (once per process;
    no byte-code is written into /repo)."""
    global _rt
    if _rt is None:
        old = sys.dont_write_bytecode
        sys.dont_write_bytecode = True
        if RUNTIME not in sys.path:
            sys.path.insert(0, RUNTIME)
        try:
            from stepcode import AggregationDataTypes as A
            from stepcode import SimpleDataTypes as S
            from stepcode import ConstructedDataTypes as C
            from stepcode import Builtin as B
        finally:
            sys.dont_write_bytecode = old
        rt = _RT()
        rt.A, rt.S, rt.B = A, S, B
        rt.cls = {"ARRAY": A.ARRAY, "LIST": A.LIST, "BAG": A.BAG, "SET": A.SET}
        rt.simple = {"INTEGER": S.INTEGER, "REAL": S.REAL, "STRING": S.STRING}
        rt.enums = {1: C.ENUMERATION("E1", " ".join(ENUM_NAMES)), 2: C.ENUMERATION("E2", " ".join(ENUM_NAMES))}
        rt.Enum = C.ENUMERATION
        rt.Unknown = S.Unknown
        rt.Aggregate = A.BaseType.Aggregate
        _rt = rt
    return _rt


class Exec:
    """One execution of one plan against the real classes."""

    def __init__(self, plan):
        self.rt = runtime()
        self.plan = plan
        self.cache = {}
        self.tags = {}

    def mat(self, elem):
        rt = self.rt
        t = elem[0]
        if t in rt.simple:
            return rt.simple[t](elem[1])
        if t == "ENUM":
            return getattr(rt.enums[elem[1]], elem[2])
        if t == "AGG":
            ck = (elem[1], elem[2], elem[3])
            if ck not in self.cache:
                obj = rt.cls[elem[1]](1, 2, rt.simple[elem[2]])
                self.cache[ck] = obj
                self.tags[id(obj)] = elem[3]
            return self.cache[ck]
        if t in ("pystr", "pyint", "pybool"):
            return elem[1]
        raise ValueError("unknown element %r" % (elem,))

    def enc(self, v):
        rt = self.rt
        if v is None:
            return None
        if v is rt.Unknown:
            return {"c": "unknown", "v": None}
        if isinstance(v, bool):
            return {"c": "bool", "v": v}
        if isinstance(v, rt.Enum):
            return {"c": "enum", "v": "%s.%s" % (type(v).__name__, v.name)}
        if isinstance(v, int):
            return {"c": "int", "v": int(v), "t": type(v).__name__}
        if isinstance(v, float):
            return {"c": "float", "v": float(v) if v == v and abs(v) != float("inf") else repr(v), "t": type(v).__name__}
        if isinstance(v, str):
            return {"c": "str", "v": str(v), "t": type(v).__name__}
        if isinstance(v, rt.Aggregate):
            return {"c": "agg", "v": self.tags.get(id(v), -1), "t": type(v).__name__}
        return {"c": "other", "v": None, "t": type(v).__name__}

    def window(self):
        p = self.plan
        lo, hi = p["lo"], p["hi"]
        if p["kind"] == "ARRAY":
            if hi - lo <= 16:
                return list(range(lo - 1, hi + 2))
            return [lo - 1, lo, lo + 1, hi - 1, hi, hi + 1]
        if p["kind"] == "LIST":
            nset = sum(1 for op in p["ops"] if op.get("op") == "set")
            top = min(nset + 1, 12)
            idx = set(range(-1, top + 1))
            if hi is not None:
                idx = set(i for i in idx if i <= hi + 1)
                idx.add(hi + 1)
            return sorted(idx)
        return []

    def dump(self, c, win):
        q = {}
        for m in METHODS:
            f = getattr(c, m, None)
            if f is None:
                continue
            try:
                q[m] = {"ok": True, "value": self.enc(f())}
            except Exception as e:
                q[m] = {"ok": False, "exc": type(e).__name__}
        items = []
        for i in win:
            try:
                items.append([i, True, self.enc(c[i])])
            except Exception as e:
                items.append([i, False, type(e).__name__])
        return {"q": q, "items": items}

    def go(self):
        rt, p = self.rt, self.plan
        out = {"steps": []}
        base = p["base"]
        if base in rt.simple:
            bt = rt.simple[base]
        elif base == "ENUM":
            bt = rt.enums[1]
        else:
            bt = rt.A.ARRAY(1, 2, rt.S.INTEGER)
        values = [self.mat(op["v"]) if "v" in op else None for op in p["ops"]]
        try:
            if p["kind"] == "ARRAY":
                c = rt.A.ARRAY(p["lo"], p["hi"], bt, UNIQUE=bool(p.get("unique")), OPTIONAL=bool(p.get("optional")))
            elif p["kind"] == "LIST":
                c = rt.A.LIST(p["lo"], p["hi"], bt, UNIQUE=bool(p.get("unique")))
            else:
                c = rt.cls[p["kind"]](p["lo"], p["hi"], bt)
            out["construct"] = {"ok": True}
        except Exception as e:
            out["construct"] = {"ok": False, "exc": type(e).__name__}
            return out
        try:
            win = self.window() if hasattr(type(c), "__getitem__") else []
        except Exception:
            win = []        # only reachable when a constructor accepted non-integer bounds
        out["dump0"] = self.dump(c, win)
        for op, val in zip(p["ops"], values):
            k = op["op"]
            rec = {"ok": True}
            try:
                if k == "set":
                    if not hasattr(type(c), "__setitem__"):
                        rec = {"ok": False, "missing": True}
                    else:
                        c[op["i"]] = val
                elif k == "get":
                    if not hasattr(type(c), "__getitem__"):
                        rec = {"ok": False, "missing": True}
                    else:
                        rec["value"] = self.enc(c[op["i"]])
                elif k == "add":
                    if not hasattr(c, "add"):
                        rec = {"ok": False, "missing": True}
                    else:
                        c.add(val)
                elif k == "q":
                    rec["value"] = self.enc(getattr(rt.B, op["m"])(c))
                else:
                    rec = {"ok": False, "missing": True}
            except Exception as e:
                rec = {"ok": False, "exc": type(e).__name__}
            rec["dump"] = self.dump(c, win)
            out["steps"].append(rec)
        return out


# ============================================================== sweep tables
ARRAY_SYMS = [("set", pos, j) for pos in ("lo-1", "lo", "hi", "hi+1") for j in (0, 1)] + \
             [("get", pos) for pos in ("lo-1", "lo", "hi", "hi+1")] + [("setw", "lo")]
LIST_SYMS = [("app", 0), ("app", 1), ("ovw", 0), ("ovw", 1), ("setlow",), ("sethigh",), ("get1",), ("getlow",), ("gethigh",), ("appw",)]
COLL_SYMS = [("add", 0), ("add", 1), ("add", 2), ("addw",)]
SWEEP_CFG = {
    "ARRAY": [{"lo": lo, "hi": hi, "unique": u, "optional": o}
              for (lo, hi) in ((1, 2), (0, 0), (-2, -1)) for u in (False, True) for o in (False, True)],
    "LIST": [{"lo": lo, "hi": hi, "unique": u, "optional": False}
             for (lo, hi) in ((1, 2), (1, None), (0, 2), (0, None), (1, 1)) for u in (False, True)],
    "BAG": [{"lo": lo, "hi": hi, "unique": False, "optional": False}
            for (lo, hi) in ((0, 1), (1, 2), (2, 3), (0, None), (0, 0), (1, None))],
}
SWEEP_CFG["SET"] = SWEEP_CFG["BAG"]
SWEEP_SYMS = {"ARRAY": ARRAY_SYMS, "LIST": LIST_SYMS, "BAG": COLL_SYMS, "SET": COLL_SYMS}
SWEEP_LEN = {"quick": {"ARRAY": 2, "LIST": 2, "BAG": 4, "SET": 4},
             "thorough": {"ARRAY": 3, "LIST": 3, "BAG": 5, "SET": 5}}
_sweeps = {}


def sweep_table(tier):
    """Blocks (start, length, kind, cfg index) ordered by sequence length: every symbol sequence
    of each length for each configuration gets exactly one plan index."""
    if tier not in _sweeps:
        blocks, starts, total = [], [], 0
        maxlen = SWEEP_LEN[tier]
        for length in range(0, max(maxlen.values()) + 1):
            for kind in KINDS:
                if length > maxlen[kind]:
                    continue
                for c in range(len(SWEEP_CFG[kind])):
                    blocks.append((total, length, kind, c))
                    starts.append(total)
                    total += len(SWEEP_SYMS[kind]) ** length
        _sweeps[tier] = (blocks, starts, total)
    return _sweeps[tier]


def sym_to_op(sym, m, base):
    """Concrete op for a sweep symbol in the model's current state (None when not applicable)."""
    lo, hi, n = m.lo, m.hi, len(m.items)
    s = sym[0]
    if m.kind == "ARRAY":
        i = {"lo-1": lo - 1, "lo": lo, "hi": hi, "hi+1": hi + 1}[sym[1]]
        if s == "set":
            return {"op": "set", "i": i, "v": mk(base, sym[2])}
        if s == "get":
            return {"op": "get", "i": i}
        return {"op": "set", "i": i, "v": WRONG[base][0]}
    if m.kind == "LIST":
        low = 0 if lo >= 1 else -1
        if s == "app":
            return {"op": "set", "i": n + 1, "v": mk(base, sym[1])}
        if s == "ovw":
            return {"op": "set", "i": 1, "v": mk(base, sym[1])} if n >= 1 else None
        if s == "setlow":
            return {"op": "set", "i": low, "v": mk(base, 0)}
        if s == "sethigh":
            return {"op": "set", "i": hi + 1, "v": mk(base, 0)} if hi is not None else {"op": "set", "i": n + 1, "v": mk(base, 2)}
        if s == "get1":
            return {"op": "get", "i": 1} if n >= 1 else None
        if s == "getlow":
            return {"op": "get", "i": low}
        if s == "gethigh":
            if hi is not None:
                return {"op": "get", "i": hi + 1}
            return {"op": "get", "i": n} if n >= 1 else None
        return {"op": "set", "i": n + 1, "v": WRONG[base][0]}
    if s == "add":
        return {"op": "add", "v": mk(base, sym[1])}
    return {"op": "add", "v": WRONG[base][0]}


# ==================================================================== check
class C19(CheckBase):
    prop = "C19"
    level = "exploration"
    engine = "pysim"
    rule = ("plan = one container (kind ARRAY/LIST/BAG/SET; bound pair incl. negative/zero/offset lower bounds for ARRAY, lower 0..3 and "
            "bounded or unbounded (None) upper for LIST/BAG/SET, a few invalid bound pairs; UNIQUE / OPTIONAL flags; base type INTEGER, REAL, "
            "STRING, an enumeration or a nested ARRAY OF INTEGER) plus a history of 0..40 (thorough: ..150) operations {item assignment, "
            "item read, add, SIZEOF/HIINDEX/LOINDEX/HIBOUND/LOBOUND/VALUE_UNIQUE through Builtin}; remove is not offered by any of the "
            "classes.  The first plan indices enumerate EVERY sequence over a small op alphabet (boundary indices lo-1/lo/hi/hi+1, two "
            "values, one wrong-typed value; append/overwrite/boundary for LIST; three values and a wrong-typed one for BAG/SET) up to "
            "length 2 (ARRAY, LIST) / 4 (BAG, SET) in quick and 3 / 5 in thorough, for 12 ARRAY, 10 LIST, 6 BAG and 6 SET "
            "configurations; the remaining indices are seeded swarm histories steered by the reference model (about 30% of the ops "
            "aim at a boundary: index lo-1/lo/hi/hi+1, add when full, duplicate value, value overwritten away).  After construction and "
            "after EVERY operation the worker dumps get_size/get_hiindex/get_loindex/get_hibound/get_lobound/get_value_unique and reads "
            "every index of the window [lo-1, hi+1] (LIST: -1 .. size+1 and hi+1); the oracle compares accept/refuse (by kind) and all "
            "reported values with a slot-window / list / multiset / set model.  non-trivial = at least one accepted mutating operation "
            "and at least one refused operation or explicit query; distinct = distinct (kind, flags, bounded?, op-kind sequence)")
    components_real = ["stepcode.AggregationDataTypes.ARRAY", "stepcode.AggregationDataTypes.LIST",
                       "stepcode.AggregationDataTypes.BAG", "stepcode.AggregationDataTypes.SET",
                       "stepcode.BaseType.Type/Aggregate", "stepcode.TypeChecker.check_type",
                       "stepcode.SimpleDataTypes (INTEGER, REAL, STRING, Unknown)", "stepcode.ConstructedDataTypes.ENUMERATION",
                       "stepcode.Builtin (SIZEOF, HIINDEX, LOINDEX, HIBOUND, LOBOUND, VALUE_UNIQUE)"]
    components_stubbed = ["none"]
    assumptions = ["one client; the containers have no I/O, clock or concurrency, so no fault kind exists in this component and "
                   "fault_kinds_fired is empty by construction",
                   "the run-time is imported from the current working tree /repo/src/exp2python/python (package stepcode), CPython 3.11",
                   "LIST workloads stay where the index-window reading (run-time, bundled tests) and the element-count reading "
                   "(ISO 10303-11) agree: lower bound 0 or 1, dense assignment, index 0 unused when the lower bound is 0",
                   "BAG/SET capacity is bound_2; re-adding a held value to a SET may be refused or be a no-op; re-assigning a UNIQUE "
                   "slot its own value is not generated; only elements clearly of / clearly not of the base type are generated",
                   "VALUE_UNIQUE follows ISO 10303-11 15.29 (FALSE when two elements are equal, else UNKNOWN when an element is unset, "
                   "else TRUE); not judged for nested aggregates; none of the classes offers remove, so remove is not exercised"]

    def n_plans(self, tier):
        return 20000 if tier == "quick" else 400000

    def time_budget(self, tier):
        return 60 if tier == "quick" else 900

    # ------------------------------------------------------------ generator
    def gen(self, seed, i, tier):
        r = core.rng(seed, "C19", i)
        blocks, starts, total = sweep_table(tier)
        if i < total:
            return self.gen_sweep(r, i, blocks, starts)
        return self.gen_random(r, tier)

    def gen_sweep(self, r, i, blocks, starts):
        start, length, kind, c = blocks[bisect.bisect_right(starts, i) - 1]
        cfg = SWEEP_CFG[kind][c]
        syms = SWEEP_SYMS[kind]
        base = r.choice(["INTEGER", "INTEGER", "REAL", "STRING", "ENUM"])
        plan = {"property": "C19", "kind": kind, "lo": cfg["lo"], "hi": cfg["hi"], "base": base,
                "unique": cfg["unique"], "optional": cfg["optional"], "ops": []}
        x = i - start
        digits = []
        for _ in range(length):
            digits.append(x % len(syms))
            x //= len(syms)
        m = Model(plan)
        for d in reversed(digits):
            op = sym_to_op(syms[d], m, base)
            if op is None or not m.generable(op):
                continue
            plan["ops"].append(op)
            v, _ = m.expect(op)
            m.apply(op, v)
        return plan

    def gen_random(self, r, tier):
        kind = r.choice(["ARRAY"] * 3 + ["LIST"] * 3 + ["BAG"] * 2 + ["SET"] * 2)
        base = r.choice(["INTEGER", "INTEGER", "REAL", "STRING", "ENUM", "AGG"])
        unique = optional = False
        if kind == "ARRAY":
            lo = r.choice([-3, -1, 0, 0, 1, 1, 1, 2, 5, -1000, 1000])
            hi = lo + r.choice([1, 1, 2, 3, 4, 6, 8]) - 1
            unique, optional = r.random() < 0.5, r.random() < 0.5
        elif kind == "LIST":
            lo = r.choice([1, 1, 1, 1, 1, 0, 0, 0, 2, 3])
            hi = None if r.random() < 0.35 else lo + r.choice([0, 1, 2, 3, 5, 8])
            unique = r.random() < 0.5
        else:
            lo = r.choice([0, 0, 0, 1, 1, 2, 3])
            hi = None if r.random() < 0.3 else lo + r.choice([0, 1, 2, 3, 5])
        if base == "AGG" and kind == "SET":
            base = "ENUM"
        if base == "AGG":
            unique = False
        plan = {"property": "C19", "kind": kind, "lo": lo, "hi": hi, "base": base, "unique": unique, "optional": optional, "ops": []}
        if r.random() < 0.02:
            # construction that EXPRESS does not allow
            how = r.choice(["lo-gt-hi", "negative-lower", "bad-bound", "bad-bound-lo"])
            if how == "lo-gt-hi":
                plan["lo"], plan["hi"] = lo + 3, lo + r.choice([0, 1, 2])
            elif how == "negative-lower" and kind != "ARRAY":
                plan["lo"] = r.choice([-1, -2])
            elif how == "bad-bound":
                plan["hi"] = None if kind == "ARRAY" else 2.5
            else:
                plan["lo"] = 1.5
            return plan
        maxlen = 40 if tier == "quick" or r.random() >= 0.1 else 150
        n_ops = 1 + int(r.random() ** 1.5 * maxlen)
        w = {k: r.choice([0, 1, 2, 4]) for k in ("mut", "get", "q")}
        w["mut"] = max(w["mut"], 1)
        if kind in ("BAG", "SET"):
            w["get"] = 0
        p_boundary = r.choice([0.1, 0.3, 0.3, 0.5])
        p_wrong = r.choice([0.0, 0.05, 0.15])
        vals = [mk(base, j) for j in r.sample(range(6), r.choice([2, 3, 6]))]
        m = Model(plan)
        kinds = [k for k, wt in w.items() for _ in range(wt)]
        for _ in range(n_ops):
            op = None
            for _try in range(4):
                k = r.choice(kinds)
                if k == "q":
                    op = {"op": "q", "m": r.choice(QNAMES)}
                elif kind == "ARRAY":
                    op = self.gen_array_op(r, m, k, vals, p_boundary, p_wrong)
                elif kind == "LIST":
                    op = self.gen_list_op(r, m, k, vals, p_boundary, p_wrong)
                else:
                    op = self.gen_add(r, m, vals, p_boundary, p_wrong)
                if op is not None and m.generable(op):
                    break
                op = None
            if op is None:
                op = {"op": "q", "m": r.choice(QNAMES)}
            plan["ops"].append(op)
            v, _ = m.expect(op)
            m.apply(op, v)
        return plan

    @staticmethod
    def pick_value(r, m, vals, boundary, p_wrong):
        if r.random() < p_wrong:
            held = m.present()
            eq = [w for w, k in WRONG_EQ[m.base] if k in held]
            if eq and r.random() < 0.5:
                return r.choice(eq)
            return r.choice(WRONG[m.base])
        if boundary:
            held = m.present()
            want = r.choice(["dup", "dup", "gone", "any"])
            if want == "dup":
                c = [e for e in vals if key(e) in held]
            elif want == "gone":
                c = [e for e in vals if key(e) in m.gone and key(e) not in held]
            else:
                c = []
            if c:
                return r.choice(c)
        return r.choice(vals)

    def gen_array_op(self, r, m, k, vals, p_boundary, p_wrong):
        lo, hi = m.lo, m.hi
        boundary = r.random() < p_boundary
        if boundary and r.random() < 0.6:
            i = r.choice([lo - 1, lo, hi, hi + 1])
        elif r.random() < 0.9:
            i = r.randint(lo, hi)
        else:
            i = r.randint(lo - 2, hi + 2)
        if k == "get":
            unset = [j for j in range(lo, hi + 1) if j not in m.slots]
            if boundary and unset and r.random() < 0.3:
                i = r.choice(unset)
            return {"op": "get", "i": i}
        return {"op": "set", "i": i, "v": self.pick_value(r, m, vals, boundary, p_wrong)}

    def gen_list_op(self, r, m, k, vals, p_boundary, p_wrong):
        lo, hi, n = m.lo, m.hi, len(m.items)
        boundary = r.random() < p_boundary
        low = [0, -1] if lo >= 1 else [-1, -2]
        if k == "get":
            c = []
            if n >= 1 and lo <= 1:
                c += [r.randint(1, n), r.randint(1, n), 1, n]
            if boundary or not c:
                c += low[:1]
                if hi is not None:
                    c += [hi + 1]
                c += [r.choice(low)]
            return {"op": "get", "i": r.choice(c)}
        c = []
        if lo <= 1:
            c += [n + 1] * 3
            if n >= 1:
                c += [r.randint(1, n), r.choice([1, n])]
        if boundary or not c:
            c += [r.choice(low)]
            if hi is not None:
                c += [hi + 1, hi + 1 + r.choice([0, 1, 5])]
        return {"op": "set", "i": r.choice(c), "v": self.pick_value(r, m, vals, boundary, p_wrong)}

    def gen_add(self, r, m, vals, p_boundary, p_wrong):
        boundary = r.random() < p_boundary or m.full()
        return {"op": "add", "v": self.pick_value(r, m, vals, boundary, p_wrong)}

    # ------------------------------------------------------------------ run
    def run(self, plan):
        try:
            return Exec(plan).go()
        except Exception as e:
            import traceback
            return {"harness_exception": "%s: %s" % (type(e).__name__, e), "stderr": traceback.format_exc()[-1500:], "steps": []}

    def harness_error(self, plan, obs):
        if "harness_exception" in obs:
            return "pysim: %s" % obs["harness_exception"]
        if "construct" not in obs:
            return "pysim: no construct record"
        if obs["construct"].get("ok") and len(obs["steps"]) != len(plan["ops"]):
            return "pysim: %d step records for %d ops" % (len(obs["steps"]), len(plan["ops"]))
        return None

    # ---------------------------------------------------------------- judge
    @staticmethod
    def same(enc, exp):
        """observed encoding vs expected (category, value) / None"""
        if exp is None:
            return enc is None
        return isinstance(enc, dict) and enc.get("c") == exp[0] and enc.get("v") == exp[1] and type(enc.get("v")) == type(exp[1])

    def judge(self, plan, obs):
        out = []
        seen = set()
        K = "C19/%s" % plan.get("kind")

        def add(klass, detail):
            if klass not in seen:
                seen.add(klass)
                out.append({"class": klass, "detail": detail})

        def desc():
            return "%s(%r,%r,%s%s%s)" % (plan["kind"], plan["lo"], plan["hi"], plan["base"],
                                         ",UNIQUE" if plan.get("unique") else "", ",OPTIONAL" if plan.get("optional") else "")

        m = Model(plan)
        v, why = m.expect_construct()
        oc = obs["construct"]
        if v == "unjudged":
            return out
        if oc["ok"] != (v == "accept"):
            add("%s/accept-mismatch/construct/%s/expected-%s" % (K, why, v),
                "%s: construction was %s (%s), EXPRESS says %s (%s)" % (desc(), "accepted" if oc["ok"] else "refused", oc.get("exc"), v, why))
            return out
        if not oc["ok"]:
            return out

        def check_dump(d, where):
            for meth in METHODS:
                o = d["q"].get(meth)
                if o is None:
                    continue
                if not o["ok"]:
                    add("%s/query-raised/%s" % (K, meth), "%s %s: %s() raised %s" % (desc(), where, meth, o.get("exc")))
                    continue
                e = m.query_expect(meth)
                if e is None:
                    continue
                allowed, case = e
                if not any(self.same(o["value"], a) for a in allowed):
                    add("%s/%s-mismatch%s" % (K, MISMATCH_NAME[meth], ("/" + case) if case else ""),
                        "%s %s: %s() -> %s, model (%s) expects %s" % (desc(), where, meth, o["value"], m.state(), allowed))
            for i, ok, val in d["items"]:
                vv, ww = m.expect({"op": "get", "i": i})
                if vv not in ("accept", "refuse"):
                    continue
                if ok != (vv == "accept"):
                    add("%s/accept-mismatch/get/%s/expected-%s" % (K, ww, vv),
                        "%s %s: read of index %d was %s (%s), expected %s (%s); model %s" % (
                            desc(), where, i, "accepted" if ok else "refused", None if ok else val, vv, ww, m.state()))
                elif ok and not self.same(val, m.read_value(i)):
                    add("%s/content-mismatch" % K, "%s %s: read of index %d -> %s, model holds %s" % (desc(), where, i, val, m.read_value(i)))

        check_dump(obs["dump0"], "after construction")
        for n, op in enumerate(plan["ops"]):
            if n >= len(obs["steps"]):
                break
            o = obs["steps"][n]
            where = "after step %d (%s)" % (n, core.jdump(op))
            v, why = m.expect(op)
            if v == "unjudged" or o.get("missing"):
                break       # not decided by the statement: nothing after it can be judged either
            if v in ("accept", "refuse") and o["ok"] != (v == "accept"):
                add("%s/accept-mismatch/%s/%s/expected-%s" % (K, op["op"], why, v),
                    "%s step %d %s: was %s (%s), expected %s (%s); model before: %s" % (
                        desc(), n, core.jdump(op), "accepted" if o["ok"] else "refused", o.get("exc"), v, why, m.state()))
                break       # implementation and model have diverged
            if o["ok"]:
                m.apply(op, v)
                if op["op"] == "get" and not self.same(o.get("value"), m.read_value(op["i"])):
                    add("%s/content-mismatch" % K, "%s step %d: read of index %d -> %s, model holds %s" % (
                        desc(), n, op["i"], o.get("value"), m.read_value(op["i"])))
                if op["op"] == "q":
                    meth = QUERIES[op["m"]]
                    e = m.query_expect(meth)
                    if e is not None and not any(self.same(o.get("value"), a) for a in e[0]):
                        add("%s/%s-mismatch%s" % (K, MISMATCH_NAME[meth], ("/" + e[1]) if e[1] else ""),
                            "%s step %d: %s(..) -> %s, model (%s) expects %s" % (desc(), n, op["m"], o.get("value"), m.state(), e[0]))
            check_dump(o["dump"], where)
        return out

    # ------------------------------------------------------------- features
    def features(self, plan, obs):
        m = Model(plan)
        probes = {k: 0 for k in PROBES}
        kinds = []
        acc_mut = refused = queries = 0
        cv, cwhy = m.expect_construct()
        if plan["hi"] is None and cv == "accept":
            probes["unbounded_upper"] = 1
        if cv == "refuse":
            probes["invalid_construct"] = 1
        if cv == "accept" and plan["kind"] == "ARRAY" and plan["lo"] <= 0:
            probes["negative_or_zero_lower"] = 1
        if cv == "accept":
            for op in plan["ops"]:
                kinds.append(op["op"])
                v, why = m.expect(op)
                if v == "unjudged":
                    break
                if op["op"] == "q":
                    queries += 1
                if v == "refuse":
                    refused += 1
                if v == "accept" and op["op"] in ("set", "add"):
                    acc_mut += 1
                if why in ("full", "append-when-full"):
                    probes["add_when_full"] += 1
                elif why == "dup-unique":
                    probes["dup_into_unique"] += 1
                elif why == "dup":
                    probes["dup_into_set"] += 1
                elif why in ("unset", "unset-optional"):
                    probes["read_unset"] += 1
                elif why == "index-below-lo":
                    probes["index_below_lo"] += 1
                elif why == "index-above-hi":
                    probes["index_above_hi"] += 1
                elif why.endswith("reuse-after-overwrite"):
                    probes["overwrite_then_reuse_value"] += 1
                elif why == "wrong-type":
                    probes["wrong_type"] += 1
                m.apply(op, v)
        return {"shape": core.hash_obj([plan["kind"], bool(plan.get("unique")), bool(plan.get("optional")), plan["hi"] is not None, kinds]),
                "nontrivial": acc_mut >= 1 and (refused >= 1 or queries >= 1),
                "probes": probes, "faults": {},
                "state": core.hash_obj([plan["kind"], plan["lo"], plan["hi"], m.state()])}

    def plan_features(self, plan):
        f = ["kind:" + plan["kind"], "bounded" if plan["hi"] is not None else "unbounded"]
        if plan["kind"] in ("BAG", "SET") and plan["hi"] is not None and plan["lo"] != 1:
            f.append("bag-or-set-lower-bound-not-1")
        return f

    def sample(self, plan, obs):
        s = {k: plan[k] for k in ("kind", "lo", "hi", "base", "unique", "optional")}
        s["ops"] = plan["ops"][:12]
        s["n_ops"] = len(plan["ops"])
        s["construct"] = obs.get("construct")
        last = obs["steps"][-1]["dump"] if obs.get("steps") else obs.get("dump0")
        s["last_dump"] = last
        return s

    # --------------------------------------------------------------- shrink
    def shrink(self, plan):
        ops = plan["ops"]
        if ops:
            yield dict(plan, ops=[])
        for cand in list_removals(ops, 0):
            p = self.repair(dict(plan, ops=cand))
            if p is not None:
                yield p
        # flags
        if plan.get("unique"):
            p = self.repair(dict(plan, unique=False))
            if p is not None:
                yield p
        if plan.get("optional"):
            p = self.repair(dict(plan, optional=False))
            if p is not None:
                yield p
        # bounds
        lo, hi, kind = plan["lo"], plan["hi"], plan["kind"]
        if is_int(lo) and (hi is None or is_int(hi)):
            cands = []
            if kind == "ARRAY" and hi is not None:
                if lo != 1:
                    cands.append((1, hi - lo + 1, 1 - lo))        # translate the window to start at 1
                if hi > lo:
                    cands.append((lo, hi - 1, 0))
                    cands.append((lo + 1, hi, 0))
            else:
                if hi is not None and hi > lo:
                    cands.append((lo, hi - 1, 0))
                if lo > 0 and kind != "LIST":
                    cands.append((lo - 1, hi, 0))
                    if hi is not None:
                        cands.append((lo - 1, hi - 1, 0))
                if kind == "LIST" and hi is not None and hi > 3:
                    cands.append((lo, 2, 0))
            for nlo, nhi, shift in cands:
                c = [dict(o) for o in ops]
                if shift:
                    for o in c:
                        if "i" in o:
                            o["i"] += shift
                p = self.repair(dict(plan, lo=nlo, hi=nhi, ops=c))
                if p is not None:
                    yield p
        # base type -> INTEGER (values keep their pool position)
        if plan["base"] != "INTEGER":
            c = []
            for o in ops:
                o = dict(o)
                if "v" in o:
                    if is_right(o["v"], plan["base"]):
                        j = POOLS[plan["base"]].index(o["v"][-1])
                        o["v"] = mk("INTEGER", j)
                    else:
                        o["v"] = WRONG["INTEGER"][0]
                c.append(o)
            p = self.repair(dict(plan, base="INTEGER", ops=c))
            if p is not None:
                yield p
        # simpler values
        base = plan["base"]
        if base in POOLS:
            for j, op in enumerate(ops):
                if "v" not in op:
                    continue
                if is_right(op["v"], base):
                    simpler = [mk(base, q) for q in (0, 1) if mk(base, q) != op["v"] and POOLS[base].index(op["v"][-1]) > q]
                elif op["v"] != WRONG[base][0]:
                    simpler = [WRONG[base][0]]
                else:
                    simpler = []
                for e in simpler:
                    c = [dict(o) for o in ops]
                    c[j]["v"] = e
                    p = self.repair(dict(plan, ops=c))
                    if p is not None:
                        yield p
            # explicit queries -> SIZEOF
            for j, op in enumerate(ops):
                if op["op"] == "q" and op["m"] != "SIZEOF":
                    c = [dict(o) for o in ops]
                    c[j]["m"] = "SIZEOF"
                    yield dict(plan, ops=c)

    def repair(self, plan):
        """Re-validate the generated-only restrictions after an edit: dense LIST indices are re-based,
        ops that became ambiguous are dropped.  None when the plan itself is not generable."""
        if not plan_ok(plan):
            return None
        m = Model(plan)
        v, _ = m.expect_construct()
        if v == "unjudged":
            return None
        if v == "refuse":
            return dict(plan, ops=[])
        ops = []
        for op in plan["ops"]:
            if not m.generable(op):
                fixed = None
                if m.kind == "LIST" and op["op"] in ("set", "get") and is_int(op.get("i")) and op["i"] >= 1 and m.lo <= 1:
                    n = len(m.items)
                    if op["op"] == "set":
                        fixed = dict(op, i=n + 1)
                    elif n >= 1:
                        fixed = dict(op, i=n)
                if fixed is None or not m.generable(fixed):
                    continue
                op = fixed
            ops.append(op)
            vv, _ = m.expect(op)
            m.apply(op, vv)
        return dict(plan, ops=ops)


CHECK = C19()
