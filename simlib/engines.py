"""Builds the executors under /verif/.build/engines/<flavour>/ from engines/ sources
and the freshly built stepcode static libraries."""
import os

from . import build
from .build import VERIF, BUILD

ENG_SRC = os.path.join(VERIF, "engines")
WRAPS = ("read", "time", "fopen64", "fclose")


def _edir(flavour):
    d = os.path.join(BUILD, "engines", flavour)
    os.makedirs(d, exist_ok=True)
    return d


def simexec_obj(flavour):
    build.ensure(flavour)
    d = _edir(flavour)
    src = os.path.join(ENG_SRC, "common", "simexec.cc")
    hdr = os.path.join(ENG_SRC, "common", "simexec.h")
    out = os.path.join(d, "simexec.o")
    if build.newer(out, [src, hdr]):
        build.compile_cxx(flavour, src, out, extra=["-I" + os.path.join(ENG_SRC, "common")])
    return out


def engine(flavour, name, extra_objs=(), extra_link=()):
    """Build engines/<name>/<name>.cc into an executor binary, relinking whenever
    the stepcode libraries changed."""
    with build.lock("engine-%s-%s" % (flavour, name)):
        d = _edir(flavour)
        so = simexec_obj(flavour)
        src = os.path.join(ENG_SRC, name, name + ".cc")
        obj = os.path.join(d, name + ".o")
        hdr = os.path.join(ENG_SRC, "common", "simexec.h")
        # headers of stepcode may have changed: recompile when any static lib is newer (cheap: one TU)
        if build.newer(obj, [src, hdr] + build.static_libs(flavour)):
            build.compile_cxx(flavour, src, obj, extra=["-I" + os.path.join(ENG_SRC, "common")])
        out = os.path.join(d, name)
        if build.newer(out, [obj, so] + list(extra_objs) + build.static_libs(flavour)):
            build.link_cxx(flavour, [obj, so] + list(extra_objs), out, wraps=WRAPS, extra=extra_link)
        return out
