"""Shipped EXPRESS schema -> schema model (the dict p21model.gen_schema produces).

The P21 checks populate *generated* schemas; this module lets them populate the
single-schema files shipped under /repo/test/unitary_schemas as well, so that the
"for every schema" quantifier also meets schema text written by the maintainers
(the original text goes to exp2cxx; the model only guides the population generator,
the renderer and the oracle).

Only declarations are read (TYPE, ENTITY heads, explicit / derived / inverse
attributes); algorithms, rules and WHERE/UNIQUE clauses are skipped token-wise.
Anything the population model cannot express raises Unsupported and the schema is
left out (counted in the evidence):  USE/REFERENCE, bounds that are not integer
literals, width-limited STRING/BINARY, RENAMED, GENERIC/AGGREGATE, attribute
qualifiers other than SELF\\ent.attr.
"""
import glob
import os
import re

from .build import REPO


class Unsupported(Exception):
    pass


_TOK = re.compile(r"\s+|--[^\n]*|'(?:[^']|'')*'|\"[0-9A-Fa-f]*\"|%[01]+|[A-Za-z][A-Za-z0-9_]*|[0-9]+(?:\.[0-9]*)?(?:[eE][+-]?[0-9]+)?"
                  r"|<\*|:=:|:<>:|:=|<=|>=|<>|\*\*|\|\||.", re.S)


def _strip_remarks(text):
    out = []
    i = 0
    depth = 0
    n = len(text)
    while i < n:
        if text.startswith("(*", i):
            depth += 1
            i += 2
        elif depth and text.startswith("*)", i):
            depth -= 1
            i += 2
            out.append(" ")
        elif depth:
            i += 1
        elif text[i] == "'":
            j = i + 1
            while j < n:
                if text[j] == "'":
                    if j + 1 < n and text[j + 1] == "'":
                        j += 2
                        continue
                    break
                j += 1
            out.append(text[i:j + 1])
            i = j + 1
        elif text.startswith("--", i):
            j = text.find("\n", i)
            i = n if j < 0 else j
        else:
            out.append(text[i])
            i += 1
    return "".join(out)


def tokens(text):
    return [m.group(0) for m in _TOK.finditer(_strip_remarks(text)) if not m.group(0).isspace()]


SIMPLE_KW = {"INTEGER": "int", "REAL": "real", "NUMBER": "number", "STRING": "string", "BINARY": "binary",
             "BOOLEAN": "bool", "LOGICAL": "logical"}
BLOCKS = {"FUNCTION": "END_FUNCTION", "PROCEDURE": "END_PROCEDURE", "RULE": "END_RULE", "CONSTANT": "END_CONSTANT"}


class _P:
    def __init__(self, toks):
        self.t = toks
        self.i = 0

    def peek(self, k=0):
        return self.t[self.i + k] if self.i + k < len(self.t) else ""

    def up(self, k=0):
        return self.peek(k).upper()

    def next(self):
        x = self.peek()
        self.i += 1
        return x

    def expect(self, s):
        x = self.next()
        if x.upper() != s:
            raise Unsupported("expected %s, found %r at token %d" % (s, x, self.i))
        return x

    def ident(self):
        x = self.next()
        if not re.match(r"[A-Za-z][A-Za-z0-9_]*$", x):
            raise Unsupported("identifier expected, found %r" % x)
        return x.lower()

    # ---- types
    def bound(self):
        x = self.next()
        sign = 1
        if x == "-":
            sign = -1
            x = self.next()
        elif x == "+":
            x = self.next()
        if x == "?":
            return None
        if not x.isdigit():
            raise Unsupported("bound is not an integer literal (%r)" % x)
        return sign * int(x)

    def typ(self, allow_constructed=False):
        u = self.up()
        if u in SIMPLE_KW:
            self.next()
            if self.peek() == "(":
                raise Unsupported("width/precision specification")
            return {"k": SIMPLE_KW[u]}
        if u in ("ARRAY", "LIST", "SET", "BAG"):
            self.next()
            lo, hi = 0, None
            if self.peek() == "[":
                self.next()
                lo = self.bound()
                self.expect(":")
                hi = self.bound()
                if self.peek() != "]":
                    raise Unsupported("bound expression")
                self.next()
                if lo is None:
                    raise Unsupported("indeterminate lower bound")
            elif u == "ARRAY":
                raise Unsupported("ARRAY without bounds")
            self.expect("OF")
            t = {"k": "agg", "agg": u, "lo": lo, "hi": hi}
            if self.up() == "OPTIONAL":
                self.next()
                t["opt_elem"] = True
            if self.up() == "UNIQUE":
                self.next()
                t["unique"] = True
            t["elem"] = self.typ()
            if u == "ARRAY" and hi is None:
                raise Unsupported("ARRAY with indeterminate upper bound")
            return t
        if u in ("GENERIC", "AGGREGATE", "GENERIC_ENTITY"):
            raise Unsupported(u)
        if u == "ENUMERATION" and allow_constructed:
            self.next()
            self.expect("OF")
            self.expect("(")
            items = [self.ident()]
            while self.peek() == ",":
                self.next()
                items.append(self.ident())
            self.expect(")")
            return {"k": "enum", "items": items}
        if u == "SELECT" and allow_constructed:
            self.next()
            self.expect("(")
            m = [self.ident()]
            while self.peek() == ",":
                self.next()
                m.append(self.ident())
            self.expect(")")
            return {"k": "select", "members": m}
        if u in ("ENUMERATION", "SELECT", "EXTENSIBLE"):
            raise Unsupported(u + " here")
        return {"k": "name", "name": self.ident()}

    def skip_to(self, *stops):
        while self.i < len(self.t) and self.up() not in stops:
            self.next()
        if self.i >= len(self.t):
            raise Unsupported("unexpected end of file looking for %s" % (stops,))

    def skip_expr(self):
        """tokens up to the ';' that ends the declaration"""
        while self.peek() != ";":
            if self.i >= len(self.t):
                raise Unsupported("eof in expression")
            self.next()
        self.next()

    def skip_block(self, kw):
        end = BLOCKS[kw]
        depth = 0
        while True:
            if self.i >= len(self.t):
                raise Unsupported("eof in " + kw)
            u = self.up()
            self.next()
            if u == kw:
                depth += 1
            elif u == end:
                depth -= 1
                if depth == 0:
                    self.expect(";")
                    return

    # ---- supertype expression
    def sup_expr(self):
        """-> tree: name | ("ONEOF", [..]) | ("AND", a, b) | ("ANDOR", a, b)"""
        left = self.sup_factor()
        while self.up() in ("AND", "ANDOR"):
            op = self.next().upper()
            right = self.sup_factor()
            left = (op, left, right)
        return left

    def sup_factor(self):
        if self.peek() == "(":
            self.next()
            e = self.sup_expr()
            self.expect(")")
            return e
        if self.up() == "ONEOF":
            self.next()
            self.expect("(")
            l = [self.sup_expr()]
            while self.peek() == ",":
                self.next()
                l.append(self.sup_expr())
            self.expect(")")
            return ("ONEOF", l)
        return self.ident()

    # ---- declarations
    def attr_name(self):
        """-> (name, redeclared-from or None)"""
        if self.up() == "SELF":
            self.next()
            self.expect("\\")
            owner = self.ident()
            self.expect(".")
            name = self.ident()
            if self.up() == "RENAMED":
                raise Unsupported("RENAMED")
            return name, owner
        return self.ident(), None

    def entity(self):
        self.expect("ENTITY")
        e = {"name": self.ident(), "attrs": [], "supers": [], "derived": [], "inverse": []}
        tree = None
        while self.peek() != ";":
            u = self.up()
            if u == "ABSTRACT":
                self.next()
                e["abstract"] = True
            elif u == "SUPERTYPE":
                self.next()
                if self.up() == "OF":
                    self.next()
                    self.expect("(")
                    a = self.i
                    tree = self.sup_expr()
                    e["super_expr"] = " ".join(self.t[a:self.i])
                    self.expect(")")
            elif u == "SUBTYPE":
                self.next()
                self.expect("OF")
                self.expect("(")
                e["supers"].append(self.ident())
                while self.peek() == ",":
                    self.next()
                    e["supers"].append(self.ident())
                self.expect(")")
            else:
                raise Unsupported("entity head token %r" % self.peek())
        self.next()
        section = "explicit"
        while self.up() != "END_ENTITY":
            u = self.up()
            if u in ("DERIVE", "INVERSE", "UNIQUE", "WHERE"):
                section = u.lower()
                self.next()
                if section in ("unique", "where"):
                    self.skip_to("END_ENTITY", "WHERE") if section == "unique" else self.skip_to("END_ENTITY")
                continue
            if section == "explicit":
                names = [self.attr_name()]
                while self.peek() == ",":
                    self.next()
                    names.append(self.attr_name())
                self.expect(":")
                opt = False
                if self.up() == "OPTIONAL":
                    self.next()
                    opt = True
                t = self.typ()
                self.expect(";")
                for n, owner in names:
                    a = {"name": n, "type": t, "optional": opt}
                    if owner:
                        a["redecl"] = owner
                    e["attrs"].append(a)
            elif section == "derive":
                n, owner = self.attr_name()
                self.expect(":")
                t = self.typ()
                self.expect(":=")
                self.skip_expr()
                d = {"name": n, "type": t, "value": "?"}
                if owner:
                    d["redecl"] = owner
                e["derived"].append(d)
            elif section == "inverse":
                n, owner = self.attr_name()
                self.expect(":")
                iv = {"name": n, "agg": None, "lo": 0, "hi": None}
                if owner:
                    iv["redecl"] = owner
                if self.up() in ("SET", "BAG"):
                    iv["agg"] = self.next().upper()
                    if self.peek() == "[":
                        self.next()
                        iv["lo"] = self.bound()
                        self.expect(":")
                        iv["hi"] = self.bound()
                        self.expect("]")
                    self.expect("OF")
                iv["ent"] = self.ident()
                self.expect("FOR")
                iv["attr"] = self.ident()
                self.expect(";")
                e["inverse"].append(iv)
        self.expect("END_ENTITY")
        self.expect(";")
        return e, tree

    def schema(self):
        self.expect("SCHEMA")
        name = self.ident()
        if self.peek() != ";":
            raise Unsupported("schema version id")
        self.next()
        types, ents, trees = [], [], {}
        while self.up() != "END_SCHEMA":
            u = self.up()
            if u == "TYPE":
                self.next()
                n = self.ident()
                self.expect("=")
                d = self.typ(allow_constructed=True)
                self.expect(";")
                if self.up() == "WHERE":
                    self.skip_to("END_TYPE")
                self.expect("END_TYPE")
                self.expect(";")
                types.append({"name": n, "def": d})
            elif u == "ENTITY":
                e, tree = self.entity()
                ents.append(e)
                if tree is not None:
                    trees[e["name"]] = tree
            elif u in BLOCKS:
                self.skip_block(u)
            elif u in ("USE", "REFERENCE"):
                raise Unsupported(u + " FROM")
            elif u == "SUBTYPE_CONSTRAINT":
                raise Unsupported(u)
            else:
                raise Unsupported("declaration %r" % self.peek())
        self.next()
        self.expect(";")
        if self.i < len(self.t):
            raise Unsupported("more than one schema in the file")
        return name, types, ents, trees


def _leaves(tree, out):
    if isinstance(tree, str):
        out.append(tree)
    elif tree[0] == "ONEOF":
        for x in tree[1]:
            _leaves(x, out)
    else:
        _leaves(tree[1], out)
        _leaves(tree[2], out)
    return out


def _and_leaves(tree, under_and, out):
    if isinstance(tree, str):
        if under_and:
            out.add(tree)
    elif tree[0] == "ONEOF":
        for x in tree[1]:
            _and_leaves(x, under_and, out)
    else:
        ua = under_and or tree[0] == "AND"
        _and_leaves(tree[1], ua, out)
        _and_leaves(tree[2], ua, out)


def _pairs(tree, out):
    """(op, a, b) nodes whose operands are plain entity names"""
    if isinstance(tree, str):
        return
    if tree[0] == "ONEOF":
        for x in tree[1]:
            _pairs(x, out)
        return
    if isinstance(tree[1], str) and isinstance(tree[2], str):
        out.append(tree)
    _pairs(tree[1], out)
    _pairs(tree[2], out)


def import_schema(path):
    """-> schema dict with "text" (the file as shipped); raises Unsupported."""
    text = open(path, encoding="latin-1").read()
    p = _P(tokens(text))
    name, types, ents, trees = p.schema()
    tnames = {t["name"] for t in types}
    enames = {e["name"] for e in ents}
    if tnames & enames:
        raise Unsupported("a type and an entity share a name")

    def fix(t):
        if t["k"] == "name":
            if t["name"] in enames:
                return {"k": "ent", "name": t["name"]}
            if t["name"] in tnames:
                return {"k": "def", "name": t["name"]}
            raise Unsupported("unknown type name %s" % t["name"])
        if t["k"] == "agg":
            return dict(t, elem=fix(t["elem"]))
        return t
    for t in types:
        d = t["def"]
        if d["k"] == "select":
            for m in d["members"]:
                if m not in tnames and m not in enames:
                    raise Unsupported("unknown select member %s" % m)
        elif d["k"] != "enum":
            t["def"] = fix(d)
    byname = {e["name"]: e for e in ents}
    for e in ents:
        for s in e["supers"]:
            if s not in enames:
                raise Unsupported("unknown supertype %s" % s)
        for a in e["attrs"]:
            a["type"] = fix(a["type"])
        for d in e["derived"]:
            d["type"] = fix(d["type"])
        for iv in e["inverse"]:
            if iv["ent"] not in enames:
                raise Unsupported("unknown inverse entity")
    # attribute names must be unique along each inheritance closure for the slot model (redeclarations aside)
    from . import p21model as pm
    sch = pm.Schema({"name": name, "types": types, "entities": ents})
    # enumeration items are global names for the model's typed values: the same item in two enumerations is fine, an
    # enumeration item equal to an entity name is fine for the Part 21 side as well
    for e in ents:
        for a in e["attrs"] + e["derived"]:
            if a.get("redecl"):
                if a["redecl"] not in sch.closure(e["name"]) or not any(x["name"] == a["name"] for x in sch.own_slots(a["redecl"])):
                    raise Unsupported("redeclaration of something that is not an explicit attribute of a supertype")
    redeclaring = {e["name"] for e in ents if any(a.get("redecl") for a in e["attrs"] + e["derived"])}
    constrained = set()
    for tr in trees.values():
        _and_leaves(tr, False, constrained)
    # an operand of AND may not occur without the other operand, and neither may anything that inherits from it
    simple_ok = [e["name"] for e in ents if not e.get("abstract") and not (set(sch.closure(e["name"])) & constrained)]
    legal_complex = []
    for root, tr in trees.items():
        prs = []
        _pairs(tr, prs)
        for op, a, b in prs:
            if a not in enames or b not in enames or a == b:
                continue
            shape = [root, a, b]
            cover = set()
            for n in shape:
                cover.update(sch.closure(n))
            if cover & redeclaring:
                continue
            if any(byname[n].get("abstract") and not any(n in sch.closure(m) and m != n for m in cover) for n in cover):
                continue
            # a part that sits under an AND with something outside the shape would make the shape illegal
            if any(n in constrained and n not in (a, b) for n in cover) or (op != "AND" and cover & constrained):
                continue
            if shape not in legal_complex:
                legal_complex.append(shape)
    return {"name": name, "types": types, "entities": ents, "legal_complex": legal_complex, "simple_ok": simple_ok,
            "features": {"imported": True}, "text": text, "source": os.path.relpath(path, REPO)}


def shipped_candidates():
    return sorted(glob.glob(os.path.join(REPO, "test", "unitary_schemas", "*.exp")))


def import_all():
    """-> ([schema dicts], [(path, why)])"""
    ok, bad = [], []
    for p in shipped_candidates():
        try:
            ok.append(import_schema(p))
        except Unsupported as e:
            bad.append((os.path.relpath(p, REPO), str(e)))
        except Exception as e:       # a shipped file this reader cannot cope with is left out, never an alarm
            bad.append((os.path.relpath(p, REPO), "not importable: %r" % (e,)))
    return ok, bad
