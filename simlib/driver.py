"""Generic check driver: exploration over seeded plans, triage against known
findings, minimisation, replay gate, evidence, exit-code contract.

exit 0  property held on everything explored (KNOWN-FINDING lines allowed)
exit 1  + "VIOLATION property=<id> replay=<path>"
exit 2  machinery problem (build failed, harness errors, non-replayable alarm)
"""
import json
import os
import subprocess
import sys
import time

from . import core
from .core import VERIF, log


class CheckBase:
    prop = "C00"
    level = "exploration"
    engine = ""
    assumptions = []
    components_real = []
    components_stubbed = []
    rule = ""

    def setup(self, tier):
        pass

    def n_plans(self, tier):
        return 100

    def time_budget(self, tier):
        return 120 if tier == "quick" else 1200

    def gen(self, seed, i, tier):
        raise NotImplementedError

    def run(self, plan):
        raise NotImplementedError

    def judge(self, plan, obs):
        return []

    def harness_error(self, plan, obs):
        return None

    def features(self, plan, obs):
        return {"shape": core.hash_obj(plan), "nontrivial": True}

    def plan_features(self, plan):
        return []

    def shrink(self, plan):
        return iter(())

    def sample(self, plan, obs):
        return plan

    def extra_coverage(self, tier, results):
        return {}

    def fixed_plans(self, tier):
        """hand-written plans run before exploration (name, plan)"""
        return []


def list_removals(lst, min_len=0):
    """Candidate sub-lists for greedy shrinking: drop halves, quarters, ..., single elements."""
    n = len(lst)
    if n <= min_len:
        return
    size = n // 2
    seen = set()
    while size >= 1:
        for start in range(0, n, size):
            cand = lst[:start] + lst[start + size:]
            if len(cand) < min_len:
                continue
            key = (start, size)
            if key in seen:
                continue
            seen.add(key)
            yield cand
        size //= 2


_check = None


def _job(job):
    """Worker side: generate, execute, judge one plan; return a compact record."""
    seed, i, tier = job
    chk = _check
    plan = chk.gen(seed, i, tier)
    obs = chk.run(plan)
    herr = chk.harness_error(plan, obs)
    viol = [] if herr else chk.judge(plan, obs)
    feat = chk.features(plan, obs)
    rec = {"i": i, "viol": viol, "herr": herr, "feat": feat, "ohash": core.obs_hash(obs)}
    if i < 4 or viol:
        rec["sample"] = chk.sample(plan, obs)
    return rec


def classes_of(chk, plan):
    obs = chk.run(plan)
    herr = chk.harness_error(plan, obs)
    if herr:
        return None, obs, herr
    return chk.judge(plan, obs), obs, None


def minimise(chk, plan, klass, max_runs=400, max_s=90):
    """Greedy shrinking: take the first candidate that still fails in the same class, start over from it.
    Candidates already tried (by content hash) are not executed again, so restarts are cheap."""
    t0 = time.time()
    runs = 0
    cur = plan
    tried = set()
    improved = True
    while improved and runs < max_runs and time.time() - t0 < max_s:
        improved = False
        for cand in chk.shrink(cur):
            if runs >= max_runs or time.time() - t0 > max_s:
                break
            h = core.hash_obj(cand)
            if h in tried:
                continue
            tried.add(h)
            runs += 1
            try:
                v, _, herr = classes_of(chk, cand)
            except Exception:
                continue
            if herr or not v:
                continue
            if any(x["class"] == klass for x in v):
                cur = cand
                improved = True
                break
    return cur, runs


def replay_path(prop, seed, i, klass):
    d = os.path.join(VERIF, "replays")
    os.makedirs(d, exist_ok=True)
    safe = "".join(c if c.isalnum() or c in "-_." else "_" for c in klass)[:60]
    return os.path.join(d, "%s-%d-%d-%s.json" % (prop, seed, i, safe))


def write_replay(path, chk, plan, klass, detail, origin):
    with open(path, "w") as f:
        json.dump({"property": chk.prop, "class": klass, "detail": detail, "origin": origin, "plan": plan},
                  f, indent=1, sort_keys=True)
        f.write("\n")


def do_replay(chk, path, quiet=False):
    """Run a replay file; returns (classes list, expected class)."""
    with open(path) as f:
        r = json.load(f)
    plan = r["plan"]
    v, obs, herr = classes_of(chk, plan)
    if herr:
        return None, r.get("class"), herr
    return v, r.get("class"), None


def fresh_replay(prop, path):
    """Replay in a fresh process; returns (exit code, stdout)."""
    p = subprocess.run([sys.executable, os.path.join(VERIF, "bin", "check"), prop, "--replay", path, "--no-build"],
                       stdout=subprocess.PIPE, stderr=subprocess.DEVNULL, timeout=600)
    return p.returncode, p.stdout.decode("utf-8", "replace")


def main_replay(chk, path):
    chk.replay_mode = True
    chk.setup("quick")
    v, klass, herr = do_replay(chk, path)
    core.close_executors()
    if herr:
        print("HARNESS-ERROR %s" % herr)
        return 2
    if v:
        for x in v:
            print("class=%s %s" % (x["class"], x.get("detail", "")[:300]))
        if klass is None or any(x["class"] == klass for x in v):
            print("VIOLATION property=%s replay=%s" % (chk.prop, path))
            return 1
        print("VIOLATION property=%s replay=%s (class differs from recorded %s)" % (chk.prop, path, klass))
        return 1
    print("replay passes: property held on %s" % path)
    return 0


def run_check(chk, tier, seed):
    global _check
    t_start = time.time()
    prop = chk.prop
    chk.seed = seed
    chk.setup(tier)
    _check = chk
    known = core.load_known(prop)
    printed_known = set()
    violations = []      # (klass, detail, replay path)
    machinery = []
    known_hit = {}

    # 1. stored replays of known findings (open: expect failure; fixed: must pass)
    for k in known:
        rp = k.get("replay")
        if not rp:
            continue
        rp_abs = os.path.join(VERIF, rp)
        if not os.path.exists(rp_abs):
            machinery.append("replay file of %s missing: %s" % (k.get("id"), rp))
            continue
        v, klass, herr = do_replay(chk, rp_abs)
        if herr:
            machinery.append("replay of %s: harness error %s" % (k.get("id"), herr))
            continue
        failing = [x for x in (v or [])]
        if k.get("status") == "open":
            covered = [x for x in failing if core.match_known([k], x["class"], None)]
            if covered:
                print("KNOWN-FINDING: property=%s %s [%s]" % (prop, k.get("what"), k.get("id")))
                printed_known.add(k.get("id"))
                known_hit[k["id"]] = known_hit.get(k["id"], 0) + 1
            else:
                log("note: open finding %s no longer reproduces on its stored replay" % k.get("id"))
            for x in failing:
                if not core.match_known(known, x["class"], None):
                    violations.append((x["class"], x.get("detail", ""), rp_abs))
        else:
            for x in failing:
                violations.append((x["class"], "regression of fixed finding %s: %s" % (k.get("id"), x.get("detail", "")), rp_abs))

    # 2. exploration
    n = chk.n_plans(tier)
    deadline = time.time() + chk.time_budget(tier)
    jobs = [(seed, i, tier) for i in range(n)]
    t_exp = time.time()
    results, errors = core.pool_map(_job, jobs, deadline=deadline)
    exp_wall = time.time() - t_exp
    done = [r for r in results if r is not None]
    if errors:
        machinery.append("worker exceptions: %d; first:\n%s" % (len(errors), errors[0]))
    herrs = [r for r in done if r["herr"]]
    if herrs:
        machinery.append("harness errors in %d plans; first (i=%d): %s" % (len(herrs), herrs[0]["i"], herrs[0]["herr"]))

    # 3. triage
    transient = []
    by_class = {}
    for r in done:
        for x in r["viol"]:
            by_class.setdefault(x["class"], []).append((r["i"], x))
    triage_deadline = time.time() + (240 if tier == "quick" else 1200)
    for klass in sorted(by_class):
        occ = by_class[klass]
        # examine a few occurrences (first, and a couple spread over the batch): a class may have a known and an unknown cause
        picks = [occ[0]] + ([occ[len(occ) // 2]] if len(occ) > 2 else []) + ([occ[-1]] if len(occ) > 1 else [])
        any_known = all(k.get("status") != "open" or not core.match_known([k], klass, None) for k in known)
        reported = False
        for i, x in picks:
            if time.time() > triage_deadline and not reported:
                machinery.append("triage budget exhausted before class %s could be examined" % klass)
                break
            plan = chk.gen(seed, i, tier)
            # gate 1: the failing plan is deterministic
            h = []
            for _ in range(2):
                v2, obs2, herr2 = classes_of(chk, plan)
                h.append((core.obs_hash(obs2), sorted(y["class"] for y in (v2 or []))))
            orig_hash = [r for r in done if r["i"] == i][0]["ohash"]
            if h[0] != h[1] or h[0][0] != orig_hash or klass not in h[0][1]:
                sym = klass + " " + str(x.get("detail", ""))[:160]
                if h[0] == h[1] and klass not in h[0][1] and any(t in sym for t in ("hang/wall", "hang/cpu", "signal/9")):
                    # the child was stopped by a resource guard or from outside (wall clock / CPU budget on a starved machine, out-of-memory killer) and two re-runs of the same
                    # plan agree with each other and end normally: an accident of the host, not of the plan - counted, not reported
                    transient.append("%s plan %d" % (klass, i))
                    print("note: %s plan %d ended by an external kill once and normally in two re-runs (host accident, not reported)" % (klass, i))
                    continue
                machinery.append("non-deterministic alarm: class %s plan %d does not repeat (hashes %s vs %s); first seen as: %s" % (
                    klass, i, orig_hash, h, str(x.get("detail", ""))[:300]))
                break
            small, runs = minimise(chk, plan, klass, *((600, 40) if tier == "quick" else (2000, 120)))
            k = core.match_known(known, klass, chk.plan_features(small))
            if k:
                known_hit[k["id"]] = known_hit.get(k["id"], 0) + 1
                if k["id"] not in printed_known:
                    print("KNOWN-FINDING: property=%s %s [%s]" % (prop, k.get("what"), k.get("id")))
                    printed_known.add(k["id"])
                continue
            path = replay_path(prop, seed, i, klass)
            write_replay(path, chk, small, klass, x.get("detail", ""), {"seed": seed, "i": i, "tier": tier, "minimise_runs": runs,
                                                                         "features": chk.plan_features(small)})
            ok = True
            for _ in range(2):
                ec, out = fresh_replay(prop, path)
                if ec != 1 or ("VIOLATION property=%s" % prop) not in out:
                    ok = False
            if not ok:
                machinery.append("replay gate failed for class %s (file %s)" % (klass, path))
                break
            violations.append((klass, x.get("detail", ""), path))
            break

    # 4. evidence
    shapes = set()
    states = set()
    probes = {}
    faults = {}
    io_events = 0
    clock_span = 0
    nontriv = 0
    unclean = []     # plans whose fault-free twin was not read cleanly: not judged by this check, but worth a look (C01 territory)
    for r in done:
        f = r["feat"]
        if f.get("probes", {}).get("twin_not_clean") and len(unclean) < 8:
            unclean.append(r["i"])
        if f.get("nontrivial") and not r["herr"]:
            if f["shape"] not in shapes:
                shapes.add(f["shape"])
                nontriv += 1
        if "state" in f:
            states.add(f["state"])
        for k2, v2 in f.get("probes", {}).items():
            probes[k2] = probes.get(k2, 0) + v2
        for k2, v2 in f.get("faults", {}).items():
            faults[k2] = faults.get(k2, 0) + v2
        io_events += f.get("io", 0)
        clock_span += f.get("clock_span", 0)
    samples = [r["sample"] for r in done if "sample" in r][:4]
    wall = time.time() - t_start
    cov = {
        "evaluations": len(done),
        "distinct_nontrivial": nontriv,
        "rule": chk.rule,
        "samples": samples,
        "runs_per_hour": int(len(done) / exp_wall * 3600) if exp_wall > 0 else 0,
        "seeds": {"base": seed, "first_index": 0, "last_index": (done[-1]["i"] if done else -1), "planned": n},
        "sim_clock_span_s": clock_span,
        "sim_io_events": io_events,
        "fault_kinds_fired": dict(sorted(faults.items())),
        "probes": dict(sorted(probes.items())),
        "distinct_observation_states": len(states),
        "components_real": chk.components_real,
        "components_stubbed": chk.components_stubbed,
        "harness_errors": len(herrs),
        "known_findings_hit": dict(sorted(known_hit.items())),
        "external_kills_not_repeating": transient,
        "violation_classes": sorted(set(v[0] for v in violations)),
    }
    if unclean:
        cov["twin_not_clean_plan_indices"] = unclean
        log("[%s] note: the fault-free twin of plan(s) %s was not read cleanly (not judged here; re-generate with --seed %d to inspect)" % (prop, unclean, seed))
    cov.update(chk.extra_coverage(tier, done))
    core.write_evidence(prop, tier, seed, chk.level, cov, wall, len(violations), chk.assumptions)
    core.close_executors()

    log("[%s] %d plans in %.1fs (%.0f/h), %d distinct non-trivial, %d states, probes=%s faults=%s" % (
        prop, len(done), exp_wall, cov["runs_per_hour"], nontriv, len(states), cov["probes"], cov["fault_kinds_fired"]))
    if machinery:
        for m in machinery:
            print("MACHINERY: " + m)
    if violations:
        seen = set()
        for klass, detail, path in violations:
            if (klass, path) in seen:
                continue
            seen.add((klass, path))
            print("VIOLATION property=%s replay=%s class=%s %s" % (prop, path, klass, detail[:400].replace("\n", " ")))
        return 1
    if machinery:
        return 2
    if len(done) < max(2, n // 20):
        print("MACHINERY: only %d of %d plans ran inside the budget" % (len(done), n))
        return 2
    print("OK property=%s tier=%s seed=%d plans=%d" % (prop, tier, seed, len(done)))
    return 0
