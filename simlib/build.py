"""Rebuild stepcode from /repo's current working tree into /verif/.build/<flavour>.

Flavours:
  san   : gcc -O1 -g -fsanitize=address,undefined   (libraries, tools)
  plain : gcc -O1 -g                                  (code generation, C12, valgrind, addr flavour)

Every check calls ensure(); cmake+ninja make it incremental, so an edit under
/repo is picked up in seconds.  A flock serialises concurrent builds.
"""
import fcntl
import hashlib
import os
import subprocess
import sys
import time

VERIF = os.path.dirname(os.path.dirname(os.path.abspath(__file__)))
REPO = os.environ.get("VERIF_REPO", "/repo")
BUILD = os.path.join(VERIF, ".build")

SAN_FLAGS = "-O1 -g -fno-omit-frame-pointer -fno-inline -fsanitize=address,undefined -fno-sanitize-recover=undefined -Wno-error -w"
PLAIN_FLAGS = "-O1 -g -Wno-error -w"
FLAGS = {"san": SAN_FLAGS, "plain": PLAIN_FLAGS}

STATIC_LIBS = ["steplazyfile", "stepeditor", "stepcore", "stepdai", "steputils"]


class BuildError(Exception):
    pass


def log(msg):
    sys.stderr.write("[build] %s\n" % msg)
    sys.stderr.flush()


def run(cmd, cwd=None, env=None, quiet=True, timeout=3600):
    p = subprocess.run(cmd, cwd=cwd, env=env, stdout=subprocess.PIPE, stderr=subprocess.STDOUT, timeout=timeout)
    if p.returncode != 0:
        out = p.stdout.decode("utf-8", "replace")
        raise BuildError("command failed (%d): %s\n%s" % (p.returncode, " ".join(cmd), out[-6000:]))
    return p.stdout


class _Lock:
    def __init__(self, name):
        os.makedirs(BUILD, exist_ok=True)
        self.path = os.path.join(BUILD, name + ".lock")

    def __enter__(self):
        self.f = open(self.path, "w")
        fcntl.flock(self.f, fcntl.LOCK_EX)
        return self

    def __exit__(self, *a):
        fcntl.flock(self.f, fcntl.LOCK_UN)
        self.f.close()


def lock(name):
    return _Lock(name)


def bdir(flavour):
    return os.path.join(BUILD, flavour)


def build_env():
    env = dict(os.environ)
    # the sanitised code generators of the build itself must not stop the build on leaks
    env["ASAN_OPTIONS"] = "detect_leaks=0:detect_odr_violation=0"
    env["UBSAN_OPTIONS"] = "halt_on_error=0"
    return env


_ensured = {}


def ensure(flavour):
    """cmake+ninja the stepcode tree; returns build dir."""
    if flavour in _ensured:
        return _ensured[flavour]
    d = bdir(flavour)
    t0 = time.time()
    with lock("cmake-" + flavour):
        if not os.path.exists(os.path.join(d, "build.ninja")):
            os.makedirs(d, exist_ok=True)
            fl = FLAGS[flavour]
            run(["cmake", "-G", "Ninja", REPO, "-B", d,
                 "-DCMAKE_BUILD_TYPE=None",
                 "-DBUILD_SHARED_LIBS=ON", "-DBUILD_STATIC_LIBS=ON",
                 "-DSC_BUILD_SCHEMAS=", "-DSC_ENABLE_TESTING=OFF",
                 "-DSC_PYTHON_GENERATOR=ON", "-DSC_CPP_GENERATOR=ON",
                 "-DCMAKE_C_FLAGS=" + fl, "-DCMAKE_CXX_FLAGS=" + fl],
                env=build_env())
        run(["ninja", "-C", d, "-j", str(os.cpu_count() or 8)], env=build_env())
    log("%s flavour up to date in %.1fs" % (flavour, time.time() - t0))
    _ensured[flavour] = d
    return d


def tool(flavour, name):
    return os.path.join(ensure(flavour), "bin", name)


def libdir(flavour):
    return os.path.join(ensure(flavour), "lib")


def static_libs(flavour):
    return [os.path.join(libdir(flavour), "lib%s-static.a" % n) for n in STATIC_LIBS]


def include_flags(flavour):
    d = ensure(flavour)
    inc = [os.path.join(REPO, "include"), os.path.join(d, "include")]
    for s in ("cldai", "cleditor", "clutils", "clstepcore", "cllazyfile", "base"):
        inc.append(os.path.join(REPO, "src", s))
        inc.append(os.path.join(REPO, "include", s))
    return ["-I" + i for i in inc if os.path.isdir(i)]


def sha(*parts):
    h = hashlib.sha256()
    for p in parts:
        if isinstance(p, str):
            p = p.encode()
        h.update(p)
        h.update(b"\0")
    return h.hexdigest()[:16]


def file_sha(path):
    h = hashlib.sha256()
    with open(path, "rb") as f:
        for blk in iter(lambda: f.read(1 << 20), b""):
            h.update(blk)
    return h.hexdigest()[:16]


def newer(target, deps):
    """True if target is missing or older than any dep."""
    try:
        t = os.stat(target).st_mtime_ns
    except OSError:
        return True
    for d in deps:
        try:
            if os.stat(d).st_mtime_ns > t:
                return True
        except OSError:
            return True
    return False


def compile_cxx(flavour, src, out, extra=(), std="-std=c++17"):
    fl = FLAGS[flavour].split()
    run(["g++", std] + fl + ["-DSC_STATIC"] + include_flags(flavour) + list(extra) + ["-c", src, "-o", out])


def link_cxx(flavour, objs, out, wraps=("read", "time"), extra=()):
    fl = FLAGS[flavour].split()
    cmd = ["g++"] + fl + ["-o", out] + list(objs) + static_libs(flavour)
    if wraps:
        cmd += ["-static-libstdc++"] + ["-Wl,--wrap=%s" % w for w in wraps]
    cmd += list(extra) + ["-lpthread"]
    run(cmd)
