"""Core of the simulator's orchestrator: seed discipline, executor clients,
worker pool, minimiser, replay gate, evidence, known findings.

Determinism rules observed here: every random choice comes from a
random.Random seeded by derive(seed, labels...); no iteration over sets or
dicts whose order is not insertion order; logging never draws random numbers
or reads a clock that feeds back into a decision.
"""
import hashlib
import json
import multiprocessing
import os
import random
import signal
import subprocess
import sys
import time
import traceback

VERIF = os.path.dirname(os.path.dirname(os.path.abspath(__file__)))
MASK = (1 << 64) - 1


def splitmix64(x):
    x = (x + 0x9E3779B97F4A7C15) & MASK
    z = x
    z = ((z ^ (z >> 30)) * 0xBF58476D1CE4E5B9) & MASK
    z = ((z ^ (z >> 27)) * 0x94D049BB133111EB) & MASK
    return z ^ (z >> 31)


def derive(seed, *labels):
    """Independent sub-seed for (seed, labels): stable across processes and Python versions."""
    h = hashlib.sha256()
    h.update(str(int(seed)).encode())
    for l in labels:
        h.update(b"/")
        h.update(str(l).encode())
    return int.from_bytes(h.digest()[:8], "big")


def rng(seed, *labels):
    return random.Random(derive(seed, *labels))


def jdump(obj):
    return json.dumps(obj, sort_keys=True, separators=(",", ":"), ensure_ascii=True)


def hash_obj(obj):
    return hashlib.sha256(jdump(obj).encode()).hexdigest()[:16]


VOLATILE_KEYS = ("cpu_us", "stderr", "wall_s", "cost_us")


def strip_volatile(obj):
    """Observation without the fields that legitimately differ between two executions of one plan
    (CPU time, raw sanitizer text with addresses and pids)."""
    if isinstance(obj, dict):
        return {k: strip_volatile(v) for k, v in obj.items() if k not in VOLATILE_KEYS}
    if isinstance(obj, list):
        return [strip_volatile(v) for v in obj]
    return obj


def obs_hash(obs):
    return hash_obj(strip_volatile(obs))


def log(msg):
    sys.stderr.write(msg + "\n")
    sys.stderr.flush()


# ------------------------------------------------------------ executors ----
class ExecutorDied(Exception):
    pass


class Executor:
    """Client of a fork-server executor binary (engines/common/simexec)."""

    def __init__(self, argv, env=None):
        self.argv = argv
        self.env = env
        self.p = None

    def start(self):
        self.p = subprocess.Popen(self.argv, stdin=subprocess.PIPE, stdout=subprocess.PIPE,
                                  stderr=subprocess.DEVNULL, env=self.env, bufsize=0)
        self.rf = os.fdopen(self.p.stdout.fileno(), "rb", buffering=1 << 16, closefd=False)

    def run(self, plan):
        """-> (list of observation dicts, end dict)"""
        for attempt in (0, 1):
            if self.p is None or self.p.poll() is not None:
                self.start()
            try:
                data = (jdump(plan) + "\n").encode("ascii")
                self.p.stdin.write(data)
                self.p.stdin.flush()
                obs = []
                while True:
                    line = self.rf.readline()
                    if not line:
                        raise ExecutorDied("executor closed its output")
                    if line.startswith(b"O "):
                        try:
                            obs.append(json.loads(line[2:].decode("ascii")))
                        except ValueError:
                            obs.append({"garbled": line[2:200].decode("latin-1")})
                    elif line.startswith(b"E "):
                        return obs, json.loads(line[2:].decode("ascii"))
            except (BrokenPipeError, ExecutorDied):
                self.close()
                if attempt:
                    raise
        raise ExecutorDied("unreachable")

    def close(self):
        if self.p is not None:
            try:
                self.p.stdin.close()
            except Exception:
                pass
            try:
                self.p.kill()
            except Exception:
                pass
            try:
                self.p.wait(timeout=5)
            except Exception:
                pass
            self.p = None


_executors = {}


def executor(argv, env=None):
    key = (tuple(argv), tuple(sorted((env or {}).items())))
    e = _executors.get(key)
    if e is None:
        e = Executor(list(argv), env)
        _executors[key] = e
    return e


def close_executors():
    for e in _executors.values():
        e.close()
    _executors.clear()


# ----------------------------------------------------------------- pool ----
_worker_fn = None


def _worker_init(fn):
    global _worker_fn
    _worker_fn = fn
    signal.signal(signal.SIGINT, signal.SIG_IGN)


def _worker_call(job):
    try:
        return ("ok", job, _worker_fn(job))
    except Exception:
        return ("exc", job, traceback.format_exc())


def pool_map(fn, jobs, nworkers=None, deadline=None, chunksize=4):
    """Run fn(job) for every job on a pool of worker processes (each worker keeps
    its own executor children).  Results are returned in job order, so nothing
    downstream depends on which worker ran what or when.  After `deadline`
    (time.time() value) no further jobs are started; unfinished jobs are
    reported as None."""
    nworkers = nworkers or int(os.environ.get("VERIF_WORKERS", "0")) or (os.cpu_count() or 8)
    jobs = list(jobs)
    results = [None] * len(jobs)
    errors = []
    if nworkers <= 1 or len(jobs) <= 1:
        _worker_init(fn)
        for i, j in enumerate(jobs):
            if deadline and time.time() > deadline:
                break
            st, _, r = _worker_call(j)
            if st == "ok":
                results[i] = r
            else:
                errors.append(r)
        close_executors()
        return results, errors
    ctx = multiprocessing.get_context("fork")
    with ctx.Pool(nworkers, initializer=_worker_init, initargs=(fn,)) as pool:
        it = pool.imap(_worker_call, jobs, 1)
        for i in range(len(jobs)):
            try:
                if deadline:
                    left = deadline - time.time()
                    if left <= 0:
                        break
                    st, _, r = it.next(timeout=left + 30)
                else:
                    st, _, r = it.next()
            except multiprocessing.TimeoutError:
                break
            if st == "ok":
                results[i] = r
            else:
                errors.append(r)
        pool.terminate()
    return results, errors


# ------------------------------------------------------- known findings ----
def load_known(prop):
    path = os.path.join(VERIF, "known_findings.json")
    if not os.path.exists(path):
        return []
    with open(path) as f:
        allk = json.load(f)
    return [k for k in allk if k.get("property") == prop]


def match_known(known, klass, plan_features=None):
    """An open finding covers a violation only if the violation's class equals
    (or matches the fnmatch pattern in) the finding's signature.class and every
    'requires' feature is present in the plan."""
    import fnmatch
    for k in known:
        if k.get("status") != "open":
            continue
        sig = k.get("signature", {})
        pat = sig.get("class")
        if not pat or not fnmatch.fnmatchcase(klass, pat):
            continue
        req = sig.get("requires", [])
        if req and plan_features is not None and not all(r in plan_features for r in req):
            continue
        return k
    return None


# -------------------------------------------------------------- evidence ----
def write_evidence(prop, tier, seed, level, coverage, wall_s, violations, assumptions):
    os.makedirs(os.path.join(VERIF, "evidence"), exist_ok=True)
    ev = {"property_id": prop, "tier": tier, "seed": int(seed), "level": level,
          "coverage": coverage, "assumptions": assumptions, "wall_s": round(wall_s, 2),
          "violations": int(violations)}
    path = os.path.join(VERIF, "evidence", prop + ".json")
    tmp = path + ".tmp.%d" % os.getpid()
    with open(tmp, "w") as f:
        json.dump(ev, f, indent=1, sort_keys=True)
        f.write("\n")
    os.replace(tmp, path)
    return path


def default_seed(tier):
    s = os.environ.get("VERIF_SEED")
    if s is not None and s.strip() != "":
        try:
            return int(s)
        except ValueError:
            return derive(0, s) & 0x7FFFFFFF
    return 20260925 if tier == "quick" else 20260926


# ------------------------------------------------------------- minimiser ----
def ddmin_list(items, test, budget):
    """Classic ddmin on a list; test(sublist)->bool (True = still fails). budget: [remaining] list."""
    n = 2
    items = list(items)
    while len(items) >= 2 and budget[0] > 0:
        chunk = max(1, len(items) // n)
        subsets = [items[i:i + chunk] for i in range(0, len(items), chunk)]
        reduced = False
        for i in range(len(subsets)):
            if budget[0] <= 0:
                break
            comp = [x for j, s in enumerate(subsets) if j != i for x in s]
            budget[0] -= 1
            if comp and test(comp):
                items = comp
                n = max(n - 1, 2)
                reduced = True
                break
        if not reduced:
            if n >= len(items):
                break
            n = min(len(items), n * 2)
    return items


# ------------------------------------------------- classifying child ends ----
import re as _re

_SUMMARY = _re.compile(r"SUMMARY: (\w+)Sanitizer: (\S+) (\S+?)(?::\d+)*(?: in (.+))?$", _re.M)
_UBRT = _re.compile(r"^(\S+?):(\d+):(\d+): runtime error: (.+)$", _re.M)
_FRAME = _re.compile(r"^\s*#(\d+) 0x[0-9a-f]+ in (\S+)(?: (\S+))?", _re.M)


def _norm_func(f):
    f = _re.sub(r"\(.*$", "", f or "")
    return f[:80]


def _in_repo(loc):
    import os
    root = os.environ.get("VERIF_REPO", "/repo").rstrip("/") + "/"
    return root in loc or "/repo/" in loc or "/src/cl" in loc or "/src/express/" in loc or "/src/exp" in loc


def _top_stepcode_frame(stderr):
    """First frame whose source lies in stepcode (or generated schema code), skipping runtime/libc/harness frames."""
    for m in _FRAME.finditer(stderr):
        func, loc = m.group(2), m.group(3) or ""
        if _in_repo(loc) or "Sdai" in loc or "/.build/" in loc and "engines" not in loc:
            return _norm_func(func)
    return None


def _recursion_frame(stderr):
    """for stack exhaustion the interrupted frame is arbitrary (it depends on where exactly the stack ran out); name the
    recursion by the alphabetically first stepcode function that occurs at least three times in the reported stack
    (every member of the recursion cycle does), so the name does not depend on the interrupted frame"""
    counts = {}
    for m in _FRAME.finditer(stderr):
        func, loc = m.group(2), m.group(3) or ""
        if _in_repo(loc) or "Sdai" in loc:
            f = _norm_func(func)
            counts[f] = counts.get(f, 0) + 1
    rep = sorted(f for f, c in counts.items() if c >= 3)
    return rep[0] if rep else None


def end_class(end):
    """None when the child ended normally; otherwise a normalised symptom string."""
    e = end.get("end")
    if e == "ok":
        return None
    st = end.get("stderr", "")
    if e in ("asan", "ubsan"):
        m = _SUMMARY.search(st)
        if m and m.group(2) == "stack-overflow":
            return "%s/stack-overflow@%s" % (e, _recursion_frame(st) or "?")
        frame = _top_stepcode_frame(st)
        if m:
            kind = m.group(2)
            func = frame or _norm_func(m.group(4) or "?")
            return "%s/%s@%s" % (e, kind, func)
        m = _UBRT.search(st)
        if m:
            what = _re.sub(r"0x[0-9a-f]+", "ADDR", m.group(4))
            what = _re.sub(r"-?\d+", "N", what)[:60]
            return "%s/%s@%s:%s" % (e, what, os.path.basename(m.group(1)), m.group(2))
        return e + "/unparsed"
    if e == "signal":
        frame = _top_stepcode_frame(st)
        return "signal/%s%s" % (end.get("sig"), ("@" + frame) if frame else "")
    if e == "cpu":
        frame = None
        if "HANG-SAMPLER" in st:
            # innermost frame common to three stack samples that lies in stepcode (or generated schema code)
            frame = _top_stepcode_frame(st[st.index("HANG-SAMPLER"):])
        return "hang/cpu" + (("@" + frame) if frame else "")
    if e == "wall":
        return "hang/wall"
    if e == "exception":
        return "uncaught-exception"
    if e == "exit":
        return "exit/%s" % end.get("code")
    return str(e)
