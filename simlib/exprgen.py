"""exprgen — seeded generator of EXPRESS schemas that are rich in *algorithms*: constants, defined types with WHERE
rules, entities with DERIVE / UNIQUE / WHERE / INVERSE clauses, FUNCTIONs, PROCEDUREs and RULEs whose bodies use every
statement kind, and typed random expressions (arithmetic, relational, logical, string, aggregate, interval, LIKE, IN,
QUERY, built-in functions, indexing, group and attribute references).

The P21-oriented generator (p21model.gen_schema) produces data models; this one produces the text the pretty printer
and the generators have to *translate* (exppp prints it back, exp2cxx embeds it as strings, exp2python turns it into
Python).  Names always resolve and argument counts are right; static typing is kept plausible but the tools' own
checker is the judge: a schema it rejects is still a legitimate input for C06 (ordinary exit required) and C12 (same
bytes and status under every perturbation) - it is labelled "generated-algo", never "valid".
"""

SIMPLE = ["INTEGER", "REAL", "NUMBER", "BOOLEAN", "LOGICAL", "STRING", "BINARY"]
NAMES = ["alpha", "beta", "gamma", "delta", "omega", "kappa", "sigma", "theta", "lambda_", "mu", "nu", "xi", "rho", "tau", "phi", "chi", "psi", "zeta"]


# string literals with multi-byte UTF-8 characters (texts are handled as latin-1 views of the file's bytes): how many *columns* such a
# literal takes depends on who counts - nothing a tool writes may depend on the locale it runs in
U8_A = "'" + "Größe und Länge der Brücke über die Straße".encode("utf-8").decode("latin-1") + "'"
U8_B = "'" + "日本語のラベルをここに書きます".encode("utf-8").decode("latin-1") + "'"
U8_C = "'" + "Überprüfung der Übereinstimmung: naïve façade, Ærøskøbing, Łódź".encode("utf-8").decode("latin-1") + "'"


class Gen:
    def __init__(self, r, name="algo", tag=""):
        self.r = r
        self.name = name
        self.tag = tag            # makes the identifiers of one schema of a multi-schema file distinct from the others'
        self.n = 0
        self.interface = []       # interface clauses (USE/REFERENCE FROM ...) placed right after the SCHEMA line
        self.foreign_ents = []    # names of entities made visible through USE FROM
        self.foreign_types = []   # (name, underlying simple type) of USE'd defined types
        self.consts = []       # (name, type)
        self.enums = []        # (type name, [items])
        self.deftypes = []     # (name, underlying simple type)
        self.selects = []      # (name, [member type names])
        self.entities = []     # dict(name, attrs=[(name, type)], supers=[...])
        self.funcs = []        # (name, [param types], return type)
        self.procs = []        # (name, [param types])

    def fresh(self, stem):
        self.n += 1
        return "%s_%s%d%s" % (self.r.choice(NAMES), stem, self.n, self.tag)

    # ------------------------------------------------------------------ types
    def type_text(self, t):
        if isinstance(t, tuple):
            kind = t[0]
            if kind == "agg":
                _, agg, lo, hi, elem = t
                b = "" if lo is None else " [%s:%s]" % (lo, "?" if hi is None else hi)
                return "%s%s OF %s" % (agg, b, self.type_text(elem))
            if kind == "ent":
                return t[1]
            if kind == "def":
                return t[1]
        return t

    def rand_attr_type(self, depth=0):
        r = self.r
        c = r.random()
        if c < 0.45:
            return r.choice(SIMPLE)
        if c < 0.55 and self.deftypes:
            return ("def", r.choice(self.deftypes)[0])
        if c < 0.62 and self.enums:
            return ("def", r.choice(self.enums)[0])
        if c < 0.70 and self.selects:
            return ("def", r.choice(self.selects)[0])
        if c < 0.82 and self.entities:
            return ("ent", r.choice(self.entities)["name"])
        if depth < 2:
            agg = r.choice(["LIST", "SET", "BAG", "ARRAY"])
            if agg == "ARRAY":
                lo = r.choice([0, 1, -1])
                hi = lo + r.randint(0, 3)
            else:
                lo = r.choice([None, 0, 1])
                hi = None if lo is None else r.choice([None, lo + r.randint(0, 4)])
            return ("agg", agg, lo, hi, self.rand_attr_type(depth + 1))
        return "INTEGER"

    def base_kind(self, t):
        """coarse kind for expression generation: int real num bool log str bin agg ent enum sel"""
        if isinstance(t, tuple):
            if t[0] == "agg":
                return "agg"
            if t[0] == "ent":
                return "ent"
            if t[0] == "def":
                for n, u in self.deftypes:
                    if n == t[1]:
                        return self.base_kind(u)
                for n, _ in self.enums:
                    if n == t[1]:
                        return "enum"
                return "sel"
        return {"INTEGER": "int", "REAL": "real", "NUMBER": "num", "BOOLEAN": "bool", "LOGICAL": "log", "STRING": "str", "BINARY": "bin"}.get(t, "int")

    # ------------------------------------------------------------ expressions
    def lit(self, kind):
        r = self.r
        if kind == "int":
            return str(r.choice([0, 1, 2, 7, 10, 255, 1000000, r.randint(0, 99)]))
        if kind in ("real", "num"):
            return r.choice(["0.0", "1.0", "2.5", "1.0E3", "6.02E23", "1.E-9", "%d.%d" % (r.randint(0, 99), r.randint(0, 999)), "PI", "CONST_E"])
        if kind == "bool":
            return r.choice(["TRUE", "FALSE"])
        if kind == "log":
            return r.choice(["TRUE", "FALSE", "UNKNOWN"])
        if kind == "str":
            return r.choice(["''", "'a'", "'it''s'", "'%s'" % ("x" * r.choice([3, 40, 200])), "'A_B.C'", "'\\\\'", '"00000041"', "'(*not a remark*)'", "'--x'", U8_A, U8_B, U8_C])
        if kind == "bin":
            return "%" + "".join(r.choice("01") for _ in range(r.choice([1, 4, 9, 64])))
        if kind == "enum" and self.enums:
            return r.choice(r.choice(self.enums)[1])
        if kind == "agg":
            return "[%s]" % ", ".join(self.lit("int") for _ in range(r.randint(0, 4)))
        return "?"

    def vars_of(self, scope, kind):
        return [n for n, t in scope if self.base_kind(t) == kind]

    def expr(self, kind, scope, depth=0):
        """an expression whose value is plausibly of `kind`; scope = [(name, type)] of visible variables/attributes"""
        r = self.r
        if depth > 3 or r.random() < 0.18:
            vs = self.vars_of(scope, kind)
            if vs and r.random() < 0.7:
                return r.choice(vs)
            cs = [n for n, t in self.consts if self.base_kind(t) == kind]
            if cs and r.random() < 0.5:
                return r.choice(cs)
            return self.lit(kind)
        d = depth + 1
        c = r.random()
        aggs = self.vars_of(scope, "agg")
        ents = [(n, t) for n, t in scope if self.base_kind(t) == "ent"]
        if kind in ("int", "real", "num"):
            if c < 0.35:
                op = r.choice(["+", "-", "*", "/", "**"] + (["DIV", "MOD"] if kind == "int" else []))
                return "(%s %s %s)" % (self.expr(kind, scope, d), op, self.expr(kind, scope, d))
            if c < 0.45:
                return "-(%s)" % self.expr(kind, scope, d)
            if c < 0.60:
                f = r.choice(["ABS", "SQRT", "SIN", "COS", "TAN", "EXP", "LOG", "LOG2", "LOG10", "ACOS", "ASIN"]) if kind != "int" else "ABS"
                return "%s(%s)" % (f, self.expr(kind, scope, d))
            if c < 0.70 and aggs:
                return "%s(%s)" % (r.choice(["SIZEOF", "HIINDEX", "LOINDEX", "HIBOUND", "LOBOUND"]), r.choice(aggs))
            if c < 0.76:
                return "LENGTH(%s)" % self.expr("str", scope, d) if kind == "int" else "ATAN(%s, %s)" % (self.expr(kind, scope, d), self.expr(kind, scope, d))
            if c < 0.82:
                return "NVL(%s, %s)" % (self.expr(kind, scope, d), self.lit(kind))
            if c < 0.88 and kind == "int":
                return "BLENGTH(%s)" % self.expr("bin", scope, d)
            if c < 0.94:
                fs = [f for f in self.funcs if self.base_kind(f[2]) == kind]
                if fs:
                    f = r.choice(fs)
                    if not f[1]:
                        return f[0]          # a call without arguments has no parentheses
                    return "%s(%s)" % (f[0], ", ".join(self.expr(self.base_kind(p), scope, d) for p in f[1]))
            if aggs:
                return "%s[%s]" % (r.choice(aggs), self.expr("int", scope, d))
            return self.lit(kind)
        if kind in ("bool", "log"):
            if c < 0.25:
                k2 = r.choice(["int", "real", "str", "bin"])
                return "(%s %s %s)" % (self.expr(k2, scope, d), r.choice(["<", ">", "<=", ">=", "=", "<>"]), self.expr(k2, scope, d))
            if c < 0.45:
                return "(%s %s %s)" % (self.expr(kind, scope, d), r.choice(["AND", "OR", "XOR"]), self.expr(kind, scope, d))
            if c < 0.52:
                return "NOT %s" % self.expr(kind, scope, d)
            if c < 0.60:
                return "{%s %s %s %s %s}" % (self.expr("int", scope, d), r.choice(["<", "<="]), self.expr("int", scope, d), r.choice(["<", "<="]), self.expr("int", scope, d))
            if c < 0.66:
                return "(%s LIKE %s)" % (self.expr("str", scope, d), r.choice(["'a?c*'", "'\\\\@'", "'#&'", "'!x'", "'$'"]))
            if c < 0.72 and aggs:
                return "(%s IN %s)" % (self.expr("int", scope, d), r.choice(aggs))
            if c < 0.78:
                vs = [n for n, _ in scope]
                return "EXISTS(%s)" % (r.choice(vs) if vs else self.lit("int"))
            if c < 0.84 and ents:
                n, t = r.choice(ents)
                return "('%s.%s' IN TYPEOF(%s))" % (self.name.upper(), t[1].upper(), n)
            if c < 0.90 and ents:
                a, b = r.choice(ents), r.choice(ents)
                return "(%s %s %s)" % (a[0], r.choice([":=:", ":<>:"]), b[0])
            if c < 0.95 and aggs:
                return "(SIZEOF(%s) %s %s)" % (self.query(scope, d), r.choice(["=", ">", ">="]), self.lit("int"))
            if c < 0.98:
                return "ODD(%s)" % self.expr("int", scope, d)
            return "VALUE_UNIQUE(%s)" % r.choice(aggs) if aggs else self.lit(kind)
        if kind == "str":
            if c < 0.35:
                return "(%s + %s)" % (self.expr("str", scope, d), self.expr("str", scope, d))
            if c < 0.50:
                return "%s[%s:%s]" % (r.choice(self.vars_of(scope, "str") or ["'abcdef'"]), self.lit("int"), self.lit("int"))
            if c < 0.65:
                return "FORMAT(%s, %s)" % (self.expr("num", scope, d), r.choice(["'+7.2F'", "'I4'", "'##.##'", "''"]))
            if c < 0.75:
                return "NVL(%s, 'none')" % self.expr("str", scope, d)
            return self.lit("str")
        if kind == "bin":
            if c < 0.4:
                return "(%s + %s)" % (self.expr("bin", scope, d), self.expr("bin", scope, d))
            if c < 0.6:
                return "%s[%s:%s]" % (r.choice(self.vars_of(scope, "bin") or ["%1010"]), self.lit("int"), self.lit("int"))
            return self.lit("bin")
        if kind == "agg":
            if c < 0.3:
                return "[%s]" % ", ".join(self.expr("int", scope, d) for _ in range(r.randint(0, 3)))
            if c < 0.45:
                return "[%s : %s]" % (self.expr("int", scope, d), self.lit("int"))
            if c < 0.65 and aggs:
                return "(%s %s %s)" % (r.choice(aggs), r.choice(["+", "-", "*"]), r.choice(aggs))
            if c < 0.85 and aggs:
                return self.query(scope, d)
            return r.choice(aggs) if aggs else "[]"
        if kind == "enum":
            vs = self.vars_of(scope, "enum")
            return r.choice(vs) if vs and r.random() < 0.5 else self.lit("enum")
        vs = self.vars_of(scope, kind)
        return r.choice(vs) if vs else "?"

    def query(self, scope, d):
        r = self.r
        aggs = self.vars_of(scope, "agg")
        src = r.choice(aggs) if aggs else "[1, 2, 3]"
        self.n += 1
        v = "q%d" % self.n
        return "QUERY(%s <* %s | %s)" % (v, src, self.expr("bool", scope + [(v, "INTEGER")], d + 1))

    # -------------------------------------------------------------- statements
    def stmts(self, scope, ret_kind, depth=0, n=None):
        r = self.r
        out = []
        assignable = [(n_, t) for n_, t in scope if not n_.startswith("q")]
        for _ in range(n if n is not None else r.randint(1, 4)):
            c = r.random()
            if c < 0.35 and assignable:
                nm, t = r.choice(assignable)
                out.append("%s := %s;" % (nm, self.expr(self.base_kind(t), scope, 1)))
            elif c < 0.50 and depth < 2:
                out.append("IF %s THEN" % self.expr("bool", scope, 1))
                out += ["  " + s for s in self.stmts(scope, ret_kind, depth + 1, r.randint(1, 2))]
                if r.random() < 0.5:
                    out.append("ELSE")
                    out += ["  " + s for s in self.stmts(scope, ret_kind, depth + 1, 1)]
                out.append("END_IF;")
            elif c < 0.62 and depth < 2:
                self.n += 1
                i = "i%d" % self.n
                head = r.choice(["REPEAT %s := %s TO %s;" % (i, self.lit("int"), self.expr("int", scope, 2)),
                                 "REPEAT %s := %s TO %s BY %s;" % (i, self.lit("int"), self.lit("int"), r.choice(["1", "2", "-1"])),
                                 "REPEAT WHILE %s;" % self.expr("bool", scope, 2), "REPEAT UNTIL %s;" % self.expr("bool", scope, 2),
                                 "REPEAT;",
                                 "REPEAT %s := 1 TO 10 WHILE %s UNTIL %s;" % (i, self.expr("bool", scope, 2), self.expr("bool", scope, 2))])
                out.append(head)
                inner = scope + ([(i, "INTEGER")] if (" " + i + " ") in head else [])
                out += ["  " + s for s in self.stmts(inner, ret_kind, depth + 1, r.randint(1, 2))]
                if r.random() < 0.3 or head == "REPEAT;":
                    out.append("  " + ("ESCAPE;" if head == "REPEAT;" else r.choice(["SKIP;", "ESCAPE;"])))
                out.append("END_REPEAT;")
            elif c < 0.72 and depth < 2:
                sel = self.expr("int", scope, 2)
                out.append("CASE %s OF" % sel)
                for _k in range(r.randint(1, 3)):
                    labels = ", ".join(self.lit("int") for _ in range(r.randint(1, 3)))
                    out.append("  %s : %s" % (labels, self.case_action(scope, ret_kind, depth)))
                if r.random() < 0.6:
                    out.append("  OTHERWISE : %s" % self.case_action(scope, ret_kind, depth))
                out.append("END_CASE;")
            elif c < 0.78 and depth < 2:
                out.append("BEGIN")
                out += ["  " + s for s in self.stmts(scope, ret_kind, depth + 1, r.randint(1, 2))]
                out.append("END;")
            elif c < 0.84 and self.vars_of(scope, "agg"):
                a = r.choice(self.vars_of(scope, "agg"))
                out.append(r.choice(["INSERT(%s, %s, %s);" % (a, self.expr("int", scope, 2), self.lit("int")), "REMOVE(%s, %s);" % (a, self.lit("int"))]))
            elif c < 0.90 and self.procs:
                p = r.choice(self.procs)
                args = []
                for pt in p[1]:
                    vs = self.vars_of(assignable, self.base_kind(pt))
                    args.append(r.choice(vs) if vs else self.lit(self.base_kind(pt)))
                out.append("%s(%s);" % (p[0], ", ".join(args)) if args else "%s;" % p[0])
            elif c < 0.94 and depth < 2 and self.vars_of(scope, "agg"):
                self.n += 1
                al = "al%d" % self.n
                a = r.choice(self.vars_of(scope, "agg"))
                out.append("ALIAS %s FOR %s;" % (al, a))
                out += ["  " + s for s in self.stmts(scope, ret_kind, depth + 1, 1)]
                out.append("END_ALIAS;")
            elif ret_kind and c < 0.98:
                out.append("RETURN (%s);" % self.expr(ret_kind, scope, 1))
            else:
                out.append(";")
        return out

    def case_action(self, scope, ret_kind, depth):
        """one single-line statement that is not the null statement (the tools' grammar has no null case action)"""
        for _ in range(6):
            st = self.stmts(scope, ret_kind, depth + 2, 1)
            if len(st) == 1 and st[0] != ";":
                return st[0]
        return "SKIP;"

    def where_expr(self, scope, anchor):
        """a domain rule has to mention SELF or an attribute: tie the random expression to `anchor`"""
        e = self.expr("bool", scope, 0)
        if anchor in e.replace("(", " ").replace(")", " ").replace(",", " ").split():
            return e
        return "(EXISTS(%s) OR TRUE) AND %s" % (anchor, e)

    # ------------------------------------------------------------ declarations
    def schema(self):
        r = self.r
        L = ["SCHEMA %s;" % self.name, ""] + list(self.interface) + ([""] if self.interface else [])
        for n_, u_ in self.foreign_types:
            self.deftypes.append((n_, u_))
        # constants (initialised from literals and from each other)
        cl = []
        for _ in range(r.randint(0, 4)):
            n = self.fresh("c")
            t = r.choice(["INTEGER", "REAL", "STRING", "BOOLEAN", "BINARY", ("agg", "LIST", 0, None, "INTEGER")])
            cl.append("  %s : %s := %s;" % (n, self.type_text(t), self.expr(self.base_kind(t), [], 2)))
            self.consts.append((n, t))
        if cl:
            L += ["CONSTANT"] + cl + ["END_CONSTANT;", ""]
        for _ in range(r.randint(0, 2)):
            n = self.fresh("e")
            items = [self.fresh("it") for _ in range(r.randint(1, 5))]
            self.enums.append((n, items))
            L.append("TYPE %s = ENUMERATION OF (%s);" % (n, ", ".join(items)))
            if r.random() < 0.4:
                # domain rules on a constructed type: the rule labels live in the type's own scope, next to its items
                L.append("WHERE")
                for k in range(r.randint(1, 2)):
                    lab = "wr%d : " % k if r.random() < 0.8 else ""
                    L.append("  %s%s;" % (lab, r.choice(["SELF <> %s" % r.choice(items), "SELF IN [%s]" % ", ".join(items), "EXISTS(SELF)"])))
            L += ["END_TYPE;", ""]
        for _ in range(r.randint(1, 3)):
            n = self.fresh("t")
            u = r.choice(SIMPLE)
            self.deftypes.append((n, u))
            width = " (%d)%s" % (r.choice([1, 8, 40]), r.choice(["", " FIXED"])) if u in ("STRING", "BINARY") and r.random() < 0.4 else ""
            prec = " (%d)" % r.choice([3, 15]) if u == "REAL" and r.random() < 0.3 else ""
            L.append("TYPE %s = %s%s%s;" % (n, u, width, prec))
            if r.random() < 0.6:
                L.append("WHERE")
                for k in range(r.randint(1, 2)):
                    L.append("  wr%d : %s;" % (k, self.where_expr([("SELF", u)], "SELF")))
            L += ["END_TYPE;", ""]
        # entity shells first (so that attributes can refer to any of them), bodies afterwards
        for _ in range(r.randint(1, 4)):
            self.entities.append({"name": self.fresh("ent"), "attrs": [], "supers": []})
        for k, e in enumerate(self.entities):
            if k and r.random() < 0.4:
                e["supers"] = [self.entities[r.randrange(k)]["name"]]
        local_entities = list(self.entities)
        for fe in self.foreign_ents:
            # visible as attribute types and select items; declared elsewhere
            self.entities.append({"name": fe, "attrs": [], "supers": [], "foreign": True})
        if self.entities and r.random() < 0.7:
            n = self.fresh("s")
            mem = [e["name"] for e in r.sample(self.entities, min(len(self.entities), r.randint(1, 2)))] + [d[0] for d in self.deftypes[:r.randint(0, 2)]]
            self.selects.append((n, mem))
            L.append("TYPE %s = SELECT (%s);" % (n, ", ".join(mem)))
            if r.random() < 0.3:
                L += ["WHERE", "  %sEXISTS(SELF) OR (SIZEOF(TYPEOF(SELF)) > 0);" % ("wrs : " if r.random() < 0.8 else "")]
            L += ["END_TYPE;", ""]
        # functions and procedures are declared before use in expressions of entities: signatures first
        for _ in range(r.randint(1, 3)):
            self.funcs.append((self.fresh("f"), [r.choice(SIMPLE[:6]) for _ in range(r.randint(0, 3))], r.choice(SIMPLE[:6])))
        for _ in range(r.randint(0, 2)):
            self.procs.append((self.fresh("p"), [r.choice(["INTEGER", "REAL", "STRING"]) for _ in range(r.randint(0, 2))]))
        for e in local_entities:
            for _ in range(r.randint(0, 4)):
                e["attrs"].append((self.fresh("a"), self.rand_attr_type()))
        for e in local_entities:
            inherited = []
            for s in e["supers"]:
                inherited += [a for x in self.entities if x["name"] == s for a in x["attrs"]]
            scope = e["attrs"] + inherited
            sup = ""
            subs = [x["name"] for x in local_entities if e["name"] in x["supers"]]
            if subs and r.random() < 0.6:
                if len(subs) == 1:
                    sx = subs[0]
                elif len(subs) == 2 or r.random() < 0.5:
                    sx = r.choice(["ONEOF (%s)", "%s"]) % (", ".join(subs)) if r.random() < 0.5 else (" %s " % r.choice(["ANDOR", "AND"])).join(subs)
                    if "," in sx and not sx.startswith("ONEOF"):
                        sx = "ONEOF (%s)" % sx
                else:
                    sx = "ONEOF (%s, %s %s %s)" % (subs[0], subs[1], r.choice(["ANDOR", "AND"]), " ANDOR ".join(subs[2:]))
                sup = " %sSUPERTYPE OF (%s)" % (r.choice(["", "ABSTRACT "]), sx)
            L.append("ENTITY %s%s%s;" % (e["name"], sup, (" SUBTYPE OF (%s)" % ", ".join(e["supers"])) if e["supers"] else ""))
            for n, t in e["attrs"]:
                L.append("  %s : %s%s;" % (n, r.choice(["", "", "OPTIONAL "]), self.type_text(t)))
            dl = []
            for _ in range(r.randint(0, 2)):
                n = self.fresh("d")
                t = r.choice(SIMPLE)
                dl.append("  %s : %s := %s;" % (n, t, self.expr(self.base_kind(t), scope, 1)))
            if e["supers"] and r.random() < 0.3:
                # a derived attribute that redeclares an inherited explicit one
                sup_e = [x for x in self.entities if x["name"] == e["supers"][0]][0]
                cands = [(n_, t_) for n_, t_ in sup_e["attrs"] if not isinstance(t_, tuple)]
                if cands:
                    n_, t_ = r.choice(cands)
                    dl.append("  SELF\\%s.%s : %s := %s;" % (sup_e["name"], n_, t_, self.expr(self.base_kind(t_), [x for x in scope if x[0] != n_], 1)))
            if dl:
                L += ["DERIVE"] + dl
            # INVERSE: over an entity-valued attribute of another local entity that points at this one
            inv = []
            for other in local_entities:
                for an, at in other["attrs"]:
                    tgt = at[1] if isinstance(at, tuple) and at[0] == "ent" else (at[4][1] if isinstance(at, tuple) and at[0] == "agg" and isinstance(at[4], tuple) and at[4][0] == "ent" else None)
                    if tgt == e["name"] and len(inv) < 2 and r.random() < 0.6:
                        inv.append("  %s : %s%s FOR %s;" % (self.fresh("inv"), r.choice(["", "SET OF ", "BAG [0:?] OF ", "SET [0:1] OF "]), other["name"], an))
            if inv:
                L += ["INVERSE"] + inv
            simple_attrs = [n for n, t in e["attrs"] if not isinstance(t, tuple)]
            if simple_attrs and r.random() < 0.3:
                L += ["UNIQUE", "  ur1 : %s;" % ", ".join(r.sample(simple_attrs, min(len(simple_attrs), r.randint(1, 2))))]
            if r.random() < 0.6:
                L.append("WHERE")
                for k in range(r.randint(1, 3)):
                    L.append("  wr%d : %s;" % (k, self.where_expr(scope + [("SELF", ("ent", e["name"]))], r.choice([n for n, _ in scope] or ["SELF"]))))
            L += ["END_ENTITY;", ""]
        for name, ptypes, rt in self.funcs:
            params = [("p%d_%s" % (k, name[:3]), t) for k, t in enumerate(ptypes)]
            locs = [(self.fresh("v"), r.choice(SIMPLE + [("agg", "LIST", None, None, "INTEGER")])) for _ in range(r.randint(0, 3))]
            L.append("FUNCTION %s%s : %s;" % (name, (" (" + "; ".join("%s : %s" % (n, t) for n, t in params) + ")") if params else "", rt))
            if locs:
                L.append("  LOCAL")
                for n, t in locs:
                    init = " := %s" % self.lit(self.base_kind(t)) if r.random() < 0.5 else ""
                    L.append("    %s : %s%s;" % (n, self.type_text(t), init))
                L.append("  END_LOCAL;")
            L += ["  " + s for s in self.stmts(params + locs, self.base_kind(rt))]
            L += ["  RETURN (%s);" % self.expr(self.base_kind(rt), params + locs, 1), "END_FUNCTION;", ""]
        for name, ptypes in self.procs:
            params = [("q%d_%s" % (k, name[:3]), t) for k, t in enumerate(ptypes)]
            L.append("PROCEDURE %s%s;" % (name, (" (" + "; ".join("%s%s : %s" % (r.choice(["", "VAR "]), n, t) for n, t in params) + ")") if params else ""))
            L += ["  " + s for s in self.stmts([(n, t) for n, t in params if not n.startswith("q")] or [], None)]
            L += ["END_PROCEDURE;", ""]
        if local_entities and r.random() < 0.7:
            ents = r.sample(local_entities, min(len(local_entities), r.randint(1, 2)))
            L.append("RULE %s FOR (%s);" % (self.fresh("r"), ", ".join(e["name"] for e in ents)))
            locs = [(self.fresh("v"), "INTEGER")]
            L += ["  LOCAL", "    %s : INTEGER := 0;" % locs[0][0], "  END_LOCAL;"]
            scope = locs + [(e["name"], ("agg", "SET", None, None, ("ent", e["name"]))) for e in ents]
            L += ["  " + s for s in self.stmts(scope, None, 1, r.randint(0, 2))]
            L.append("WHERE")
            for k in range(r.randint(1, 2)):
                L.append("  wr%d : %s;" % (k, self.expr("bool", scope, 0)))
            L += ["END_RULE;", ""]
        L += ["END_SCHEMA;", ""]
        return "\n".join(L)


def gen_algo_schema(r, name="algo"):
    """one file: 1..3 schemas; with several, they USE / REFERENCE items of each other (also mutually, also renamed)"""
    k = r.choice([1, 1, 2, 3])
    if k == 1:
        return Gen(r, name).schema()
    names = [name] + ["%s_x%d" % (name, j) for j in range(1, k)]
    # what each schema will export is fixed before any text is written, so that schemas can refer to each other in both directions
    exports = []
    for j, nm in enumerate(names):
        tag = "_s%d" % j
        exports.append({"schema": nm, "tag": tag,
                        "type": ("shared_t%s" % tag, r.choice(["REAL", "INTEGER", "STRING"])),
                        "ent": "shared_ent%s" % tag, "const": "shared_c%s" % tag, "func": "shared_f%s" % tag})
    texts = []
    for j, nm in enumerate(names):
        g = Gen(r, nm, exports[j]["tag"])
        others = [x for i_, x in enumerate(exports) if i_ != j and (i_ < j or r.random() < 0.5)]
        for o in others:
            use, ref = [], []
            if r.random() < 0.8:
                use.append(o["ent"] if r.random() < 0.7 else "%s AS renamed_%s" % (o["ent"], o["ent"]))
                g.foreign_ents.append(use[-1].split(" AS ")[-1])
            if r.random() < 0.6:
                use.append(o["type"][0])
                g.foreign_types.append(o["type"])
            if r.random() < 0.6:
                ref.append(o["const"])
                g.consts.append((o["const"], "INTEGER"))
            if r.random() < 0.6:
                ref.append(o["func"])
                g.funcs.append((o["func"], ["INTEGER"], "INTEGER"))
            if use:
                g.interface.append("USE FROM %s (%s);" % (o["schema"], ", ".join(use)))
            if ref:
                g.interface.append("REFERENCE FROM %s (%s);" % (o["schema"], ", ".join(ref)))
            if not use and not ref and r.random() < 0.5:
                g.interface.append("%s FROM %s;" % (r.choice(["USE", "REFERENCE"]), o["schema"]))
        t = g.schema()
        # the exported declarations of this schema
        me = exports[j]
        sel_user = ""
        if g.foreign_ents:
            # a select over a foreign entity, used by the exported entity: the shape in which two schemas wait for each other
            sel_user = "TYPE shared_sel%s = SELECT (%s);\nEND_TYPE;\n\n" % (me["tag"], ", ".join(g.foreign_ents[:2]))
        decl = ("CONSTANT\n  %s : INTEGER := %d;\nEND_CONSTANT;\n\n" % (me["const"], r.randint(1, 99)) if "CONSTANT" not in t else "")
        body = ("TYPE %s = %s;\nEND_TYPE;\n\n%sENTITY %s;\n  id%s : INTEGER;\n%sEND_ENTITY;\n\n"
                "FUNCTION %s (n : INTEGER) : INTEGER;\n  RETURN (n + %d);\nEND_FUNCTION;\n\n" % (
                    me["type"][0], me["type"][1], sel_user, me["ent"], me["tag"],
                    ("  pick%s : OPTIONAL shared_sel%s;\n" % (me["tag"], me["tag"])) if sel_user else "", me["func"], j))
        if "CONSTANT" in t:
            t = t.replace("CONSTANT\n", "CONSTANT\n  %s : INTEGER := %d;\n" % (me["const"], r.randint(1, 99)), 1)
        # constants must precede every other declaration: put the block right after the interface clauses
        head_end = t.index("\n\n", t.index("SCHEMA %s;" % nm)) + 2
        for cl in g.interface:
            head_end = max(head_end, t.index(cl) + len(cl) + 1)
        if "CONSTANT" in t:
            cend = t.index("END_CONSTANT;") + len("END_CONSTANT;\n\n")
            t = t[:cend] + body + t[cend:]
        else:
            t = t[:head_end] + ("\n" if not t[:head_end].endswith("\n\n") else "") + decl + body + t[head_end:]
        texts.append(t)
    return "\n".join(texts)
