"""The hand-written 'kitchen sink' schema, in the schema-model format of p21model."""


def T(k, **kw):
    d = {"k": k}
    d.update(kw)
    return d


def D(name):
    return {"k": "def", "name": name}


def E(name):
    return {"k": "ent", "name": name}


def AGG(agg, lo, hi, elem, unique=False):
    d = {"k": "agg", "agg": agg, "lo": lo, "hi": hi, "elem": elem}
    if unique:
        d["unique"] = True
    return d


def A(name, type, optional=False):
    return {"name": name, "type": type, "optional": optional}


def ENT(name, attrs=(), supers=(), abstract=False, super_expr=None, derived=(), inverse=()):
    return {"name": name, "attrs": list(attrs), "supers": list(supers), "abstract": abstract, "super_expr": super_expr,
            "derived": list(derived), "inverse": list(inverse)}


def kitchen_sink():
    types = [
        {"name": "label", "def": T("string")},
        {"name": "cnt", "def": T("int")},
        {"name": "ratio", "def": T("real")},
        {"name": "color", "def": {"k": "enum", "items": ["red", "green", "blue"]}},
        {"name": "int_list", "def": AGG("LIST", 0, None, T("int"))},
        {"name": "measure", "def": {"k": "select", "members": ["cnt", "ratio", "label"]}},
        {"name": "thing", "def": {"k": "select", "members": ["measure", "color", "point"]}},
        {"name": "label2", "def": D("label")},
        {"name": "real_bag", "def": AGG("BAG", 0, None, T("real"))},
        {"name": "anything", "def": {"k": "select", "members": ["real_bag", "int_list", "wide"]}},
        # a specialised defined type listed before the type it is defined from (positive_ratio_measure / ratio_measure in the AP schemas)
        {"name": "doc_status", "def": {"k": "enum", "items": ["draft", "finaldraft", "final", "fin"]}},   # prefixes, longer first
        {"name": "pos_ratio", "def": D("ratio")},
        {"name": "amount", "def": {"k": "select", "members": ["pos_ratio", "ratio", "cnt"]}},
    ]
    ents = [
        ENT("point", [A("x", T("real")), A("y", T("real")), A("name", D("label"), True)]),
        ENT("shape", [A("id", T("int")), A("tag", T("string"), True)], abstract=True, super_expr="ONEOF (circle, poly)"),
        ENT("circle", [A("center", E("point")), A("radius", D("ratio"))], supers=["shape"],
            derived=[{"name": "area", "type": T("real"), "value": "3.14"}]),
        ENT("poly", [A("pts", AGG("LIST", 1, None, E("point"))), A("weights", AGG("ARRAY", 1, 3, T("real")), True),
                     A("flags", AGG("SET", 0, None, T("bool"))), A("names", AGG("BAG", 0, None, T("string"))),
                     A("grid", AGG("LIST", 0, None, AGG("LIST", 0, None, T("int"))))], supers=["shape"]),
        ENT("bag_of_stuff", [A("n", T("number")), A("b", T("binary")), A("l", T("logical")), A("bo", T("bool")),
                             A("c", D("color")), A("m", D("measure")), A("t", D("thing")),
                             A("ms", AGG("LIST", 0, None, D("measure"))), A("cs", AGG("LIST", 0, None, D("color"))),
                             A("il", D("int_list")), A("bs", AGG("LIST", 0, None, T("binary"))),
                             A("opt_ref", E("shape"), True)]),
        ENT("base", [A("b0", T("int"))], super_expr="left ANDOR right"),
        ENT("left", [A("l0", T("string"))], supers=["base"]),
        ENT("right", [A("r0", T("real"))], supers=["base"]),
        ENT("both", [A("z", T("int"))], supers=["left", "right"]),
        ENT("wrapper", [A("v", T("real"))]),
        ENT("wrapper_d", [], supers=["wrapper"], derived=[{"name": "v", "type": T("real"), "redecl": "wrapper", "value": "1.0"}]),
        # explicit redeclaration (type narrowing), renamed simple type, aggregates inside a select
        ENT("wide", [A("w", T("number")), A("nm", D("label2"), True)]),
        ENT("narrow", [dict(A("w", T("int")), redecl="wide"), A("extra", D("anything"))], supers=["wide"]),
        # C++ keywords as entity names
        ENT("class", [A("delete", T("int")), A("new", E("union"), True)]),
        ENT("union", [A("int", AGG("LIST", 0, 3, T("string"), unique=True))]),
        # AND and mixed supertype expressions
        ENT("vehicle", [A("vid", T("int"))], super_expr="powered AND wheeled"),
        ENT("powered", [A("kw", T("real"))], supers=["vehicle"]),
        ENT("wheeled", [A("wheels", T("int")), A("axle", E("point")), A("spares", AGG("LIST", 0, None, E("shape")), True),
                        A("cargo", D("thing"), True)], supers=["vehicle"]),
        ENT("craft", [A("cid", T("string"))], abstract=True, super_expr="ONEOF (boat, plane ANDOR drone)"),
        ENT("boat", [A("draft", T("real"))], supers=["craft"]),
        ENT("plane", [A("span", T("real"))], supers=["craft"]),
        ENT("drone", [A("rotors", T("int"))], supers=["craft"]),
        # two independent supertypes
        ENT("named", [A("nm1", T("string"))]),
        ENT("dated", [A("yr", T("int"))]),
        ENT("record", [A("payload", T("binary"))], supers=["named", "dated"]),
        # a subtype that redeclares TWO inherited attributes as derived, inside an ANDOR family: `*` twice in the supertype's part
        ENT("dsup", [A("da", T("real")), A("db", T("real")), A("dc", T("int"))], super_expr="dsub ANDOR dother"),
        ENT("dsub", [], supers=["dsup"], derived=[{"name": "da", "type": T("real"), "redecl": "dsup", "value": "1.0"},
                                                   {"name": "db", "type": T("real"), "redecl": "dsup", "value": "2.0"}]),
        ENT("dother", [A("dz", T("int"))], supers=["dsup"]),
        ENT("priced", [A("amt", D("amount")), A("amts", AGG("LIST", 0, None, D("amount")))]),
        ENT("document", [A("st", D("doc_status")), A("history", AGG("LIST", 0, None, D("doc_status"))), A("prev", D("doc_status"), True)]),
    ]
    return {"name": "kitchen_sink", "types": types, "entities": ents,
            "legal_complex": [["base", "left", "right"], ["vehicle", "powered", "wheeled"], ["craft", "plane", "drone"], ["dsup", "dsub", "dother"]],
            "simple_ok": ["point", "circle", "poly", "bag_of_stuff", "base", "left", "right", "both", "wrapper", "wrapper_d",
                          "wide", "narrow", "class", "union", "vehicle", "boat", "plane", "drone", "named", "dated", "record", "priced", "document",
                          "dsup", "dsub", "dother"],
            "features": {"hand_written": True}}


def inverse_sink():
    """hand-written companion of the kitchen sink for the INVERSE resolver (C11): an inverse declared over a SUBTYPE of the entity that
    owns the inverted attribute, a referrer entity that REDECLARES the inverted attribute, an inverse on a subtype of the referent,
    inverses over single and aggregate attributes, a self-referencing entity, and an ANDOR family of referents"""
    def IV(name, ent, attr, agg="SET"):
        return {"name": name, "ent": ent, "attr": attr, "agg": agg, "lo": 0, "hi": None}
    ents = [
        ENT("item", [A("name", T("string"))], super_expr="special_item ANDOR flagged_item",
            inverse=[IV("used_in", "assembly", "parts"), IV("sub_used", "sub_assembly", "parts"), IV("strictly_used", "strict_assembly", "parts", "BAG"),
                     IV("kept_by", "keeper", "kept")]),
        ENT("special_item", [], supers=["item"], inverse=[IV("approved_by", "approval", "approved")]),
        ENT("flagged_item", [A("flag", T("bool"))], supers=["item"]),
        ENT("assembly", [A("parts", AGG("LIST", 1, None, E("item")))]),
        ENT("sub_assembly", [A("level", T("int"))], supers=["assembly"]),
        ENT("strict_assembly", [dict(A("parts", AGG("LIST", 1, None, E("special_item"))), redecl="assembly")], supers=["assembly"]),
        ENT("approval", [A("approved", E("special_item")), A("also", E("item"), True)]),
        ENT("keeper", [A("kept", E("item"))]),
        ENT("strict_keeper", [dict(A("kept", E("special_item")), redecl="keeper")], supers=["keeper"]),
        ENT("node", [A("parent", E("node"), True), A("peers", AGG("LIST", 0, None, E("node")))],
            inverse=[IV("children", "node", "parent"), IV("peer_of", "node", "peers", "BAG")]),
    ]
    return {"name": "inverse_sink", "types": [], "entities": ents,
            "legal_complex": [["item", "special_item", "flagged_item"]],
            "simple_ok": ["item", "special_item", "flagged_item", "assembly", "sub_assembly", "strict_assembly", "approval", "keeper", "strict_keeper", "node"],
            "features": {"hand_written": True, "inverse": True}}
