"""Everything beyond the two stepcode flavours that bin/setup prepares, so that the first quick run of each
check only has to build its own generated schemas."""


def prune_schema_cache(max_age_h=12):
    """every change in /repo invalidates the per-schema library cache; drop entries nobody has used for a while"""
    import os, shutil, time
    from .build import BUILD
    d = os.path.join(BUILD, "schemas")
    if not os.path.isdir(d):
        return
    now = time.time()
    for n in os.listdir(d):
        p = os.path.join(d, n)
        try:
            if os.path.isdir(p) and now - os.path.getmtime(p) > max_age_h * 3600:
                shutil.rmtree(p, ignore_errors=True)
        except OSError:
            pass


def run():
    from . import engines, toolsim, schemas, kitchen, p21model as pm
    prune_schema_cache()
    toolsim.shim()
    for fl in ("plain", "san"):
        for t in ("check-express", "exppp", "exp2cxx", "exp2python"):
            toolsim.tool_path(fl, t)
    toolsim.scanner("plain")
    ks = kitchen.kitchen_sink()
    schemas.p21sim(ks["name"], pm.emit_express(ks), "san")
    wrap_canary()


def wrap_canary():
    """the delivery seam must really be in the path of std::ifstream: a 1-byte schedule has to show up as short reads"""
    import json
    import subprocess
    from . import schemas, kitchen, p21model as pm
    ks = kitchen.kitchen_sink()
    exe = schemas.p21sim(ks["name"], pm.emit_express(ks), "san")
    text = "ISO-10303-21;\nHEADER;\nFILE_DESCRIPTION(('x'),'2;1');\nFILE_NAME('f','t',('a'),('o'),'p','s','z');\nFILE_SCHEMA(('KITCHEN_SINK'));\nENDSEC;\nDATA;\n#1=POINT(1.,2.,$);\nENDSEC;\nEND-ISO-10303-21;\n"
    plan = {"files": {"a.p21": text}, "ops": [{"op": "read", "file": "a.p21", "delivery": [{"kind": "fixed", "sizes": [1]}, {"kind": "fixed", "sizes": [1]}]},
                                                {"op": "write_exchange", "into": "o", "clock": 86400}]}
    p = subprocess.run([exe], input=(json.dumps(plan) + "\n").encode(), stdout=subprocess.PIPE, timeout=120)
    lines = [l for l in p.stdout.decode().splitlines() if l.startswith("O ")]
    obs = [json.loads(l[2:]) for l in lines]
    rd = [o for o in obs if o.get("op") == "read"][0]
    wr = [o for o in obs if o.get("op") == "write_exchange"][0]
    if rd.get("d_reads", 0) < len(text) or rd.get("sev") != 3:
        raise RuntimeError("wrap canary failed: read(2) is not under the simulator's control (d_reads=%s, sev=%s)" % (rd.get("d_reads"), rd.get("sev")))
    if "1970-01-02T00:00:00" not in wr.get("bytes", ""):
        raise RuntimeError("wrap canary failed: time() is not under the simulator's control")
