"""Shared pieces of the p21sim-based checks: schema sets, plan building blocks,
delivery schedules, executing a plan, child-end classification."""
import concurrent.futures
import time

from . import core, kitchen, p21model as pm, schemas

# feature status table (DESIGN.md §4): clean features are on for generated schemas of the quick tier;
# the others are switched on in dedicated schemas only.
# probability that a generated schema uses the feature (swarm: every schema gets its own mix, so correctness
# never silently depends on one configuration).  Features tied to an open finding get a low probability.
FEATURE_P = {
    "selects": 0.85, "enums": 0.9, "agg_types": 0.8, "nested_agg": 0.8, "multi_inherit": 0.7, "andor": 0.7,
    "derived_redecl": 0.7, "binary": 0.8, "logical": 0.8, "array": 0.8, "select_of_select": 0.6, "unique": 0.5,
    "cxx_keywords": 0.4, "renamed_types": 0.5, "renamed_enum": 0.4, "explicit_redecl": 0.5, "and_expr": 0.4,
    "mixed_expr": 0.4, "agg_in_select": 0.4,
    "renamed_select": 0.12,     # open finding C01-K3
    "inverse": 0.0,
}
CLEAN_FEATURES = {k: True for k, v in FEATURE_P.items() if v >= 0.4}


class SchemaSet:
    def __init__(self):
        self.items = []     # {"name","sd","exe","schema": Schema}
        self.rejected = []  # {"name","why"}

    def by_name(self, n):
        for it in self.items:
            if it["name"] == n:
                return it
        raise KeyError(n)


def schema_defs(seed, tier, n_generated, feature_overrides=None, label="p21"):
    """deterministic list of schema dicts: kitchen sink + n generated"""
    out = [kitchen.kitchen_sink()]
    for k in range(n_generated):
        r = core.rng(seed, label, "schema", k)
        feat = {f: (r.random() < p) for f, p in sorted(FEATURE_P.items())}
        if feature_overrides:
            feat.update(feature_overrides)
        out.append(pm.gen_schema(r, "g%s%d" % (label, k), feat))
    return out


def build_schema_set(defs, flavour="san"):
    ss = SchemaSet()

    def one(sd):
        try:
            text = pm.emit_express(sd)
            exe = schemas.p21sim(sd["name"], text, flavour)
            return ("ok", sd, exe)
        except schemas.SchemaRejected as e:
            return ("rej", sd, str(e))
    with concurrent.futures.ThreadPoolExecutor(max_workers=6) as ex:
        for st, sd, x in ex.map(one, defs):
            if st == "ok":
                ss.items.append({"name": sd["name"], "sd": sd, "exe": x, "schema": pm.Schema(sd)})
            else:
                ss.rejected.append({"name": sd["name"], "why": x[-800:]})
    return ss


# ------------------------------------------------------------ delivery ----
def gen_delivery(r, n_opens=2):
    """one delivery spec per open() of a simulated file (pass 1 and pass 2 are separate opens)"""
    out = []
    for _ in range(n_opens):
        c = r.random()
        if c < 0.15:
            out.append({"kind": "whole"})
        elif c < 0.45:
            out.append({"kind": "fixed", "sizes": [r.choice([1, 1, 2, 3, 7, 64, 4095, 4096, 8191])]})
        elif c < 0.75:
            out.append({"kind": "cycle", "sizes": [r.choice([1, 2, 3, 5, 7, 13, 64, 100, 4096]) for _ in range(r.randint(2, 5))]})
        else:
            out.append({"kind": "rand", "seed": r.randint(1, 2 ** 31), "max": r.choice([2, 8, 64, 700])})
    return out


def delivery_class(d):
    if not d:
        return "whole"
    return "+".join(x["kind"] + (str(min(x.get("sizes", [0]))) if x["kind"] in ("fixed",) else "") for x in d)


WHOLE = [{"kind": "whole"}]


def strip_delivery(plan):
    p = dict(plan)
    p["ops"] = [dict(op, delivery=WHOLE) if "delivery" in op else op for op in plan["ops"]]
    return p


IO_KEYS = ("d_reads", "d_opens", "io_opens", "io_reads", "io_bytes", "io_short", "clock_reads")


def semantic(obs_steps):
    """observation with the delivery bookkeeping removed (what must NOT depend on the delivery schedule)"""
    out = []
    for o in obs_steps:
        d = {k: v for k, v in o.items() if k not in IO_KEYS}
        for k in ("usermsg", "detailmsg"):
            if k in d:
                # messages embed the private directory name of the run
                d[k] = _scrub(d[k])
        out.append(d)
    return out


def _scrub(s):
    import re
    return re.sub(r"/[^ \n]*verif-sim\.[A-Za-z0-9]+", "<dir>", s)


def run_plan(exe, plan):
    obs, end = core.executor([exe]).run(plan)
    return {"steps": obs, "end": end}


def exec_harness_error(obs):
    for o in obs["steps"]:
        if "error" in o or "garbled" in o:
            return "executor: %s" % (o.get("error") or o.get("garbled"))
    if obs["end"].get("end") in ("badplan", "harness"):
        return "executor end=%s %s" % (obs["end"].get("end"), obs["end"].get("what", ""))
    return None


def timestamp(clock):
    return time.strftime("%Y-%m-%dT%H:%M:%S", time.gmtime(clock))


def gen_clock(r):
    base = r.choice([0, 1, 86399, 951782400, 1000000000, 1234567890, 2147483647, 2147483648, 4102444800, 253402300799])
    return base


def steps_by_op(obs, op):
    return [o for o in obs["steps"] if o.get("op") == op]


def exe_for(ss, plan):
    """executor for the plan's schema: from the prepared set, or built on demand from the schema
    definition carried by the plan (replay files are self-contained)."""
    sd = plan.get("schema_def")
    for it in ss.items:
        if it["name"] == plan["schema"] and (sd is None or it["sd"] == sd):
            return it["exe"]
    if sd is None:
        raise KeyError(plan["schema"])
    exe = schemas.p21sim(sd["name"], pm.emit_express(sd), "san")
    ss.items.append({"name": sd["name"], "sd": sd, "exe": exe, "schema": pm.Schema(sd)})
    return exe
