"""Shared pieces of the p21sim-based checks: schema sets, plan building blocks,
delivery schedules, executing a plan, child-end classification."""
import concurrent.futures
import time

from . import core, kitchen, p21model as pm, schemas

# feature status table (DESIGN.md §4): clean features are on for generated schemas of the quick tier;
# the others are switched on in dedicated schemas only.
# probability that a generated schema uses the feature (swarm: every schema gets its own mix, so correctness
# never silently depends on one configuration).  Features tied to an open finding get a low probability.
FEATURE_P = {
    "selects": 0.85, "enums": 0.9, "agg_types": 0.8, "nested_agg": 0.8, "multi_inherit": 0.7, "andor": 0.7,
    "derived_redecl": 0.7, "binary": 0.8, "logical": 0.8, "array": 0.8, "select_of_select": 0.6, "unique": 0.5,
    "cxx_keywords": 0.4, "renamed_types": 0.5, "explicit_redecl": 0.5, "and_expr": 0.4,
    "renamed_enum": 0.12,       # open finding C01-K4
    "mixed_expr": 0.4, "agg_in_select": 0.4,
    "optional_elems": 0.12,     # open finding C01-K5
    "renamed_select": 0.12,     # open finding C01-K3
    "inverse": 0.0,
}
CLEAN_FEATURES = {k: True for k, v in FEATURE_P.items() if v >= 0.4}


class SchemaSet:
    def __init__(self):
        self.items = []     # {"name","sd","exe","schema": Schema}
        self.rejected = []  # {"name","why"}

    def by_name(self, n):
        for it in self.items:
            if it["name"] == n:
                return it
        raise KeyError(n)


N_IMPORTED = {"quick": 8, "thorough": 40}


def imported_defs(seed, tier, label, want=None):
    """shipped single-schema EXPRESS files (test/unitary_schemas) that the population model can express and that
    declare at least one instantiable entity; a seeded subset in the quick tier, all of them in the thorough tier"""
    from . import expimport
    ok, bad = expimport.import_all()
    ok = [sd for sd in ok if sd["simple_ok"] and (want is None or want(sd))]
    r = core.rng(seed, label, "imported")
    import os
    n = min(len(ok), int(os.environ.get("VERIF_N_IMPORTED") or N_IMPORTED[tier]))     # the override is an exploration aid
    return sorted(r.sample(ok, n), key=lambda sd: sd["name"]), bad


def shipped_coverage(ss):
    """evidence: which shipped schema files are in the set, and which ones the population model cannot express"""
    from . import expimport
    try:
        bad = expimport.import_all()[1]
    except Exception:
        bad = []
    return {"schemas_shipped": [it["sd"]["source"] for it in ss.items if it["sd"].get("source")],
            "shipped_not_expressible": [{"file": p, "why": w[:120]} for p, w in bad]}


def schema_defs(seed, tier, n_generated, feature_overrides=None, label="p21", imported=True, want=None):
    """deterministic list of schema dicts: kitchen sink + n generated + imported shipped schemas"""
    out = [kitchen.kitchen_sink()]
    if (feature_overrides or {}).get("inverse"):
        out.append(kitchen.inverse_sink())
    for k in range(n_generated):
        r = core.rng(seed, label, "schema", k)
        feat = {f: (r.random() < p) for f, p in sorted(FEATURE_P.items())}
        if feature_overrides:
            feat.update(feature_overrides)
        out.append(pm.gen_schema(r, "g%s%d" % (label, k), feat))
    if imported:
        out += imported_defs(seed, tier, label, want)[0]
    import os
    flt = os.environ.get("VERIF_SCHEMA_FILTER")     # exploration aid ("imported" or a name pattern); not used by registered commands
    if flt:
        import fnmatch
        out = [sd for sd in out if (sd.get("features", {}).get("imported") if flt == "imported" else fnmatch.fnmatch(sd["name"], flt))]
    return out


def build_schema_set(defs, flavour="san"):
    ss = SchemaSet()

    def one(sd):
        try:
            text = pm.emit_express(sd)
            exe = schemas.p21sim(sd["name"], text, flavour)
            return ("ok", sd, exe)
        except schemas.SchemaRejected as e:
            return ("rej", sd, str(e))
    with concurrent.futures.ThreadPoolExecutor(max_workers=6) as ex:
        for st, sd, x in ex.map(one, defs):
            if st == "ok":
                ss.items.append({"name": sd["name"], "sd": sd, "exe": x, "schema": pm.Schema(sd)})
            else:
                ss.rejected.append({"name": sd["name"], "why": x[-800:]})
    return ss


# ------------------------------------------------------------ delivery ----
def gen_delivery(r, n_opens=2):
    """one delivery spec per open() of a simulated file (pass 1 and pass 2 are separate opens)"""
    out = []
    for _ in range(n_opens):
        c = r.random()
        if c < 0.15:
            out.append({"kind": "whole"})
        elif c < 0.45:
            out.append({"kind": "fixed", "sizes": [r.choice([1, 1, 2, 3, 7, 64, 4095, 4096, 8191])]})
        elif c < 0.75:
            out.append({"kind": "cycle", "sizes": [r.choice([1, 2, 3, 5, 7, 13, 64, 100, 4096]) for _ in range(r.randint(2, 5))]})
        else:
            out.append({"kind": "rand", "seed": r.randint(1, 2 ** 31), "max": r.choice([2, 8, 64, 700])})
    return out


def delivery_class(d):
    if not d:
        return "whole"
    return "+".join(x["kind"] + (str(min(x.get("sizes", [0]))) if x["kind"] in ("fixed",) else "") for x in d)


WHOLE = [{"kind": "whole"}]


def strip_delivery(plan):
    p = dict(plan)
    p["ops"] = [dict(op, delivery=WHOLE) if "delivery" in op else op for op in plan["ops"]]
    return p


IO_KEYS = ("d_reads", "d_opens", "io_opens", "io_reads", "io_bytes", "io_short", "clock_reads")


def semantic(obs_steps):
    """observation with the delivery bookkeeping removed (what must NOT depend on the delivery schedule)"""
    out = []
    for o in obs_steps:
        d = {k: v for k, v in o.items() if k not in IO_KEYS}
        for k in ("usermsg", "detailmsg"):
            if k in d:
                # messages embed the private directory name of the run
                d[k] = _scrub(d[k])
        out.append(d)
    return out


def _scrub(s):
    import re
    return re.sub(r"/[^ \n]*verif-sim\.[A-Za-z0-9]+", "<dir>", s)


def run_plan(exe, plan):
    obs, end = core.executor([exe]).run(plan)
    return {"steps": obs, "end": end}


def exec_harness_error(obs):
    for o in obs["steps"]:
        if "error" in o or "garbled" in o:
            return "executor: %s" % (o.get("error") or o.get("garbled"))
    if obs["end"].get("end") in ("badplan", "harness"):
        return "executor end=%s %s" % (obs["end"].get("end"), obs["end"].get("what", ""))
    return None


def timestamp(clock):
    return time.strftime("%Y-%m-%dT%H:%M:%S", time.gmtime(clock))


def gen_clock(r):
    base = r.choice([0, 1, 86399, 951782400, 1000000000, 1234567890, 2147483647, 2147483648, 4102444800, 253402300799])
    return base


def steps_by_op(obs, op):
    return [o for o in obs["steps"] if o.get("op") == op]


def exe_for(ss, plan):
    """executor for the plan's schema: from the prepared set, or built on demand from the schema
    definition carried by the plan (replay files are self-contained)."""
    sd = plan.get("schema_def")
    for it in ss.items:
        if it["name"] == plan["schema"] and (sd is None or it["sd"] == sd):
            return it["exe"]
    if sd is None:
        raise KeyError(plan["schema"])
    exe = schemas.p21sim(sd["name"], pm.emit_express(sd), "san")
    ss.items.append({"name": sd["name"], "sd": sd, "exe": exe, "schema": pm.Schema(sd)})
    return exe


# --------------------------------------------------------------------------
# common base for the checks that start from a conforming generated file
# --------------------------------------------------------------------------
import copy as _copy
from .driver import CheckBase as _CheckBase, list_removals as _list_removals


class P21Check(_CheckBase):
    """setup of the schema set, seeded base plans (schema x population x rendering), re-rendering after
    shrinking, and the shrinking moves that all file-based checks share."""
    engine = "p21sim"
    label = "p21"
    # the file-based checks draw their generated schemas from ONE seeded pool (same names, same libraries): every check sees all of them for
    # the build cost of one set.  Checks that need other constructs (C01: renamed types, C11: INVERSE) name their own pool.
    pool = "pool"
    n_generated = {"quick": 10, "thorough": 30}
    feature_overrides = {"renamed_select": False, "renamed_enum": False, "optional_elems": False}   # constructs of open C01 findings stay out
    want_imported = None     # filter on the shipped schemas added to the pool (C11: those with INVERSE attributes)
    max_insts = 12
    sizes = [1, 2, 3, 5, 8]

    def setup(self, tier):
        seed = getattr(self, "seed", None)
        if seed is None:
            seed = core.default_seed(tier)
        if getattr(self, "replay_mode", False):
            self.ss = SchemaSet()
            return
        defs = schema_defs(seed, tier, self.n_generated[tier], label=self.pool, feature_overrides=self.feature_overrides, want=self.want_imported)
        self.ss = build_schema_set(defs)
        if not self.ss.items:
            raise RuntimeError("no schema library could be built: %s" % self.ss.rejected)

    def base_plan(self, seed, j, popts=None, n=None, tag="base"):
        r = core.rng(seed, self.prop, tag, j)
        it = self.ss.items[j % len(self.ss.items)]
        po = {"ids": r.choice(["dense", "sparse", "scattered"]), "rich_strings": r.random() < 0.5, "complex": True,
              "max_insts": self.max_insts, "shuffle": r.random() < 0.2}
        po.update(popts or {})
        insts = None
        for attempt in range(6):
            try:
                insts = pm.PopGen(core.rng(seed, self.prop, tag, "pop", j, attempt), it["schema"], po).generate(n or r.choice(self.sizes))
                break
            except pm.Infeasible:
                pass
        return {"property": self.prop, "schema": it["name"], "schema_def": it["sd"],
                "model": {"header": pm.default_header(core.rng(seed, self.prop, tag, "hdr", j), it["name"], rich=False), "insts": insts or []},
                "render": {"p_ws": r.choice([0, 0, 0.1, 0.3]), "p_cmt_between": r.choice([0, 0, 0.2]), "p_cmt_in": 0, "sections": "hif", "spell": r.choice([None] * 6 + [{"id_pad": 4}, {"id_pad": 9, "plus_int": True}, {"id_pad": 25}, {"plus_int": True}, {"zero_pad": True}, {"zero_pad": True, "id_pad": 3}]), "eol": r.choice(["\n"] * 7 + ["", " ", "\r\n"]),
                           "seed": core.derive(seed, self.prop, tag, "render", j)}}

    @staticmethod
    def render_model(model, rn):
        """-> (text, render dict with explicit seps)"""
        lines = pm.file_lines(model["header"], model["insts"])
        if "seps" not in rn:
            rn = dict(rn, seps=pm.gen_seps(core.rng(rn["seed"], "r"), lines, rn["p_ws"], rn["p_cmt_between"], rn["p_cmt_in"], rn["sections"]))
        ntok = {k: len(t) for k, t in lines}
        rn = dict(rn, seps={k: v for k, v in rn["seps"].items() if int(k.rsplit(":", 1)[1]) < ntok.get(k.rsplit(":", 1)[0], -1)})
        return pm.render(lines, rn["seps"], rn.get("eol", "\n"), rn.get("spell")), rn

    def exe(self, plan):
        return exe_for(self.ss, plan)

    def schema_of(self, plan):
        return pm.Schema(plan["schema_def"])

    def shrink_model(self, plan, keep_ids=(), finish=None):
        """drop unreferenced instances (never those in keep_ids), drop separators, simplify delivery"""
        finish = finish or self.finish
        insts = plan["model"]["insts"]
        referenced = set(keep_ids)
        for x in insts:
            for ref in pm.inst_refs(x):
                if ref != x["id"]:
                    referenced.add(ref)
        free = [n for n, x in enumerate(insts) if x["id"] not in referenced]
        for keep_free in _list_removals(free, 0):
            drop = set(free) - set(keep_free)
            if drop and len(insts) - len(drop) >= 1:
                c = _copy.deepcopy(plan)
                c["model"]["insts"] = [x for n, x in enumerate(insts) if n not in drop]
                yield finish(c)
        if plan["render"].get("spell"):
            yield finish(dict(plan, render=dict(plan["render"], spell=None)))
        if plan["render"].get("eol", "\n") != "\n":
            yield finish(dict(plan, render=dict(plan["render"], eol="\n")))
        if plan["render"].get("seps"):
            yield finish(dict(plan, render=dict(plan["render"], seps={})))
            sk = sorted(plan["render"]["seps"])
            for keep in _list_removals(sk, 0):
                yield finish(dict(plan, render=dict(plan["render"], seps={k: plan["render"]["seps"][k] for k in keep})))
        if plan.get("delivery") and any(x.get("kind") != "whole" for x in plan["delivery"]):
            yield finish(dict(plan, delivery=[{"kind": "whole"}, {"kind": "whole"}]))

    def extra_coverage(self, tier, results):
        return dict(shipped_coverage(self.ss), schemas=[it["name"] for it in self.ss.items], schemas_rejected=self.ss.rejected)


def parse_inst_text(text):
    """one '#n=...;' record as written by SDAI_Application_instance::STEPwrite -> {"id","parts"}; None if unparsable"""
    try:
        p = pm.Parser(text)
        r = p.expect("ref")
        p.expect("punct", "=")
        if p.peek()[0] == "punct" and p.peek()[1] == "(":
            p.next()
            parts = []
            while not (p.peek()[0] == "punct" and p.peek()[1] == ")"):
                parts.append(p.simple_record())
            p.next()
        else:
            parts = [p.simple_record()]
        p.expect("punct", ";")
        return {"id": int(r[1][1:]), "parts": parts}
    except pm.P21SyntaxError:
        return None


def inst_diff(model_inst, got_inst):
    """None if the dumped instance denotes the model instance (C01 equivalence), else (class suffix, detail)"""
    if got_inst is None:
        return ("unparsable", "instance text could not be parsed")
    if [p["ent"] for p in model_inst["parts"]] != [p["ent"] for p in got_inst["parts"]]:
        return ("entity-type", "#%d is %s, expected %s" % (model_inst["id"], [p["ent"] for p in got_inst["parts"]], [p["ent"] for p in model_inst["parts"]]))
    for mp, gp in zip(model_inst["parts"], got_inst["parts"]):
        if len(mp["vals"]) != len(gp["vals"]):
            return ("arity", "#%d %s has %d values, expected %d" % (model_inst["id"], mp["ent"], len(gp["vals"]), len(mp["vals"])))
        for k, (a, b) in enumerate(zip(mp["vals"], gp["vals"])):
            d = pm.value_diff(a, b, "#%d.%s[%d]" % (model_inst["id"], mp["ent"], k))
            if d:
                return ("value/" + d[0], d[1])
    return None
