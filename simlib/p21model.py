"""Workload side of the Part 21 simulations: schema model + EXPRESS emitter,
population model + renderer, an independent ISO 10303-21 parser (written from
the BNF in /repo/doc, not from stepcode), and value equivalence.

Value trees (JSON-able):
  ["int", n] ["real", text] ["num", text] ["str", body] ["bin", body] ["enum", ITEM]
  ["ref", id] ["null"] ["derived"] ["list", [v...]] ["typed", KEYWORD, v]
"num" exists only in models (a NUMBER-typed value, spelled as integer or real); the
parser yields "int" or "real".
"""
import re

# ============================================================== schema model
SIMPLE = ("int", "real", "number", "string", "binary", "bool", "logical")
EXPRESS_SIMPLE = {"int": "INTEGER", "real": "REAL", "number": "NUMBER", "string": "STRING",
                  "binary": "BINARY", "bool": "BOOLEAN", "logical": "LOGICAL"}

NAME_POOL = ["alpha", "beta", "gamma", "delta", "node", "edge", "item", "part", "unit", "zone", "link", "cell",
             "frame", "pin", "slot", "arc", "hub", "rim", "tab", "web", "axis", "bolt", "cam", "disk"]
CXX_KEYWORD_NAMES = ["class", "delete", "new", "int", "union", "template", "operator", "register", "this", "virtual"]
ATTR_POOL = ["a", "b", "c", "d", "e", "f", "g", "h", "k", "m", "n", "p", "q", "r", "s", "t", "u", "v", "w", "x", "y", "z"]
ENUM_ITEMS = ["red", "green", "blue", "north", "south", "on", "off", "hi", "lo", "mid", "t", "f", "u", "x1", "a_b"]
# (longer, shorter): the shorter item is a proper prefix of the longer one, as in IfcDocumentStatusEnum (FINALDRAFT / FINAL)
ENUM_PREFIX_PAIRS = [("online", "on"), ("offset", "off"), ("middle", "mid"), ("north_east", "north"), ("x10", "x1"), ("t2", "t"), ("a_b_c", "a_b")]


def type_express(t):
    k = t["k"]
    if k in EXPRESS_SIMPLE:
        return EXPRESS_SIMPLE[k]
    if k in ("def", "ent"):
        return t["name"]
    if k == "agg":
        if t["hi"] is None:
            b = "[%d:?]" % t["lo"]
        else:
            b = "[%d:%d]" % (t["lo"], t["hi"])
        return "%s %s OF %s%s%s" % (t["agg"], b, "OPTIONAL " if t.get("opt_elem") else "", "UNIQUE " if t.get("unique") else "", type_express(t["elem"]))
    raise ValueError(k)


def emit_express(schema):
    if schema.get("text"):
        return schema["text"]       # an imported (shipped) schema goes to the generator as its maintainers wrote it
    out = ["SCHEMA %s;" % schema["name"], ""]
    for td in schema["types"]:
        d = td["def"]
        if d["k"] == "enum":
            body = "ENUMERATION OF (%s)" % ", ".join(d["items"])
        elif d["k"] == "select":
            body = "SELECT (%s)" % ", ".join(d["members"])
        else:
            body = type_express(d)
        out.append("TYPE %s = %s;\nEND_TYPE;\n" % (td["name"], body))
    for e in schema["entities"]:
        head = "ENTITY %s" % e["name"]
        if e.get("abstract") and e.get("super_expr"):
            head += "\n  ABSTRACT SUPERTYPE OF (%s)" % e["super_expr"]
        elif e.get("abstract"):
            head += "\n  ABSTRACT SUPERTYPE"
        elif e.get("super_expr"):
            head += "\n  SUPERTYPE OF (%s)" % e["super_expr"]
        if e.get("supers"):
            head += "\n  SUBTYPE OF (%s)" % ", ".join(e["supers"])
        out.append(head + ";")
        for a in e["attrs"]:
            if a.get("redecl"):
                out.append("  SELF\\%s.%s : %s%s;" % (a["redecl"], a["name"], "OPTIONAL " if a.get("optional") else "", type_express(a["type"])))
            else:
                out.append("  %s : %s%s;" % (a["name"], "OPTIONAL " if a.get("optional") else "", type_express(a["type"])))
        if e.get("derived"):
            out.append("DERIVE")
            for d in e["derived"]:
                if d.get("redecl"):
                    out.append("  SELF\\%s.%s : %s := %s;" % (d["redecl"], d["name"], type_express(d["type"]), d["value"]))
                else:
                    out.append("  %s : %s := %s;" % (d["name"], type_express(d["type"]), d["value"]))
        if e.get("inverse"):
            out.append("INVERSE")
            for iv in e["inverse"]:
                if iv.get("agg"):
                    hi = "?" if iv.get("hi") is None else str(iv["hi"])
                    out.append("  %s : %s [%d:%s] OF %s FOR %s;" % (iv["name"], iv["agg"], iv.get("lo", 0), hi, iv["ent"], iv["attr"]))
                else:
                    out.append("  %s : %s FOR %s;" % (iv["name"], iv["ent"], iv["attr"]))
        out.append("END_ENTITY;\n")
    out.append("END_SCHEMA;")
    return "\n".join(out) + "\n"


class Schema:
    """Derived views of a schema dict."""

    def __init__(self, sd):
        self.sd = sd
        self.name = sd["name"]
        self.ents = {e["name"]: e for e in sd["entities"]}
        self.types = {t["name"]: t["def"] for t in sd["types"]}
        self.order = [e["name"] for e in sd["entities"]]
        self.subs = {n: [] for n in self.ents}
        for e in sd["entities"]:
            for s in e.get("supers", []):
                self.subs[s].append(e["name"])

    def closure(self, name):
        """entity + all supertypes, ISO 10303-21 inheritance order (supertypes first, depth first, each once)."""
        seen = []

        def visit(n):
            if n in seen:
                return
            for s in self.ents[n].get("supers", []):
                visit(s)
            if n not in seen:
                seen.append(n)
        visit(name)
        return seen

    def descendants(self, name):
        out = [name]
        for s in self.subs[name]:
            for d in self.descendants(s):
                if d not in out:
                    out.append(d)
        return out

    def own_slots(self, name):
        """explicit attributes declared by the entity itself (redeclarations occupy the supertype's slot, not a new one)."""
        return [a for a in self.ents[name]["attrs"] if not a.get("redecl")]

    def internal_slots(self, name):
        """[(owner, attr dict, derived?)] in Part 21 internal-mapping order for a simple instance of `name`."""
        cl = self.closure(name)
        derived = set()
        retyped = {}
        for n in cl:
            for d in self.ents[n].get("derived", []):
                if d.get("redecl"):
                    derived.add((d["redecl"], d["name"]))
            for a in self.ents[n]["attrs"]:
                if a.get("redecl"):
                    retyped[(a["redecl"], a["name"])] = a
        slots = []
        for n in cl:
            for a in self.own_slots(n):
                eff = retyped.get((n, a["name"]), a)
                slots.append((n, dict(a, type=eff["type"], optional=eff.get("optional", a.get("optional", False))), (n, a["name"]) in derived))
        return slots

    def resolve(self, t):
        """follow defined-type names to the underlying definition"""
        while t["k"] == "def":
            t = self.types[t["name"]]
        return t

    def concrete_for(self, ent):
        """entity names whose simple instances are instances of `ent` (non-abstract descendants incl. itself)"""
        return [d for d in self.descendants(ent) if not self.ents[d].get("abstract") and d in self.sd.get("simple_ok", self.order)]


# ------------------------------------------------------------ schema generator
def gen_schema(r, name, feat):
    """Seeded schema inside the generator's supported subset.  `feat` switches optional features
    (dict of bools): selects, select_of_select, nested_agg, enums, multi_inherit, andor, and_expr, derived_redecl,
    explicit_redecl, renamed_types, cxx_keywords, inverse, agg_in_select, binary, logical, unique, array."""
    used = set()

    def fresh(pool, extra=None):
        cands = [n for n in pool if n not in used]
        if extra:
            cands = [n for n in extra if n not in used] + cands
        if not cands:
            k = 0
            while ("n%d" % k) in used:
                k += 1
            cands = ["n%d" % k]
        n = r.choice(cands[:8])
        used.add(n)
        return n

    types = []
    simple_defs = []
    enum_defs = []
    agg_defs = []
    select_defs = []
    simples = ["int", "real", "number", "string", "bool"]
    if feat.get("binary", True):
        simples.append("binary")
    if feat.get("logical", True):
        simples.append("logical")
    for _ in range(r.randint(1, 3)):
        n = fresh([x + "_t" for x in NAME_POOL])
        k = r.choice(simples)
        types.append({"name": n, "def": {"k": k}})
        simple_defs.append(n)
    if feat.get("enums", True):
        for _ in range(r.randint(1, 2)):
            n = fresh([x + "_e" for x in NAME_POOL])
            items = r.sample(ENUM_ITEMS, r.randint(1, 5))
            if r.random() < 0.35:
                # an item that is a proper prefix of an EARLIER item: a reader that stops comparing at the token's length picks the wrong one
                lng, sht = r.choice(ENUM_PREFIX_PAIRS)
                items = [x for x in items if x not in (lng, sht)]
                at = r.randint(0, len(items))
                items = items[:at] + [lng] + items[at:]
                at2 = r.randint(at + 1, len(items))
                items = items[:at2] + [sht] + items[at2:]
            types.append({"name": n, "def": {"k": "enum", "items": items}})
            enum_defs.append(n)
    if feat.get("agg_types", True):
        n = fresh([x + "_l" for x in NAME_POOL])
        types.append({"name": n, "def": {"k": "agg", "agg": r.choice(["LIST", "SET", "BAG"]), "lo": 0, "hi": None, "elem": {"k": r.choice(["int", "real", "string"])}}})
        agg_defs.append(n)
    renamed_pair = None
    if feat.get("renamed_types") and simple_defs:
        n = fresh([x + "_r" for x in NAME_POOL])
        base = r.choice(simple_defs)
        types.append({"name": n, "def": {"k": "def", "name": base}})
        simple_defs.append(n)
        renamed_pair = (n, base)
    renamed_enum = []
    if feat.get("renamed_enum") and enum_defs:
        n = fresh([x + "_re" for x in NAME_POOL])
        types.append({"name": n, "def": {"k": "def", "name": r.choice(enum_defs)}})
        renamed_enum.append(n)

    # ---- entity families
    ents = []
    legal_complex = []
    simple_ok = []

    def new_ent(nm=None, **kw):
        n = nm or fresh(NAME_POOL, CXX_KEYWORD_NAMES if feat.get("cxx_keywords") and r.random() < 0.5 else None)
        e = {"name": n, "attrs": [], "supers": [], "derived": [], "inverse": []}
        e.update(kw)
        ents.append(e)
        return e

    n_fam = r.randint(2, 4)
    fam_kinds = ["plain", "chain", "oneof"]
    if feat.get("andor", True):
        fam_kinds.append("andor")
    if feat.get("and_expr"):
        fam_kinds.append("and")
    if feat.get("multi_inherit", True):
        fam_kinds.append("multi")
    if feat.get("mixed_expr"):
        fam_kinds.append("mixed")
    for fi in range(n_fam):
        kind = r.choice(fam_kinds) if fi else r.choice(["plain", "chain"])
        if len(ents) > 10:
            kind = "plain"
        if kind == "plain":
            e = new_ent()
            simple_ok.append(e["name"])
        elif kind == "chain":
            root = new_ent(abstract=r.random() < 0.3)
            prev = root
            depth = r.randint(1, 3)
            for _ in range(depth):
                c = new_ent(supers=[prev["name"]])
                simple_ok.append(c["name"])
                prev = c
            if not root.get("abstract"):
                simple_ok.append(root["name"])
            else:
                root["super_expr"] = None
        elif kind == "oneof":
            root = new_ent(abstract=r.random() < 0.6)
            kids = [new_ent(supers=[root["name"]]) for _ in range(r.randint(2, 3))]
            root["super_expr"] = "ONEOF (%s)" % ", ".join(k["name"] for k in kids)
            for k in kids:
                simple_ok.append(k["name"])
            if not root.get("abstract"):
                simple_ok.append(root["name"])
            if r.random() < 0.4:
                g = new_ent(supers=[kids[0]["name"]])
                simple_ok.append(g["name"])
        elif kind == "andor":
            root = new_ent()
            l = new_ent(supers=[root["name"]])
            rr = new_ent(supers=[root["name"]])
            root["super_expr"] = "%s ANDOR %s" % (l["name"], rr["name"])
            simple_ok += [root["name"], l["name"], rr["name"]]
            legal_complex.append([root["name"], l["name"], rr["name"]])
            if feat.get("multi_inherit", True) and r.random() < 0.5:
                both = new_ent(supers=[l["name"], rr["name"]])
                simple_ok.append(both["name"])
        elif kind == "and":
            root = new_ent()
            l = new_ent(supers=[root["name"]])
            rr = new_ent(supers=[root["name"]])
            root["super_expr"] = "%s AND %s" % (l["name"], rr["name"])
            simple_ok += [root["name"]]
            legal_complex.append([root["name"], l["name"], rr["name"]])
        elif kind == "mixed":
            root = new_ent(abstract=True)
            a = new_ent(supers=[root["name"]])
            b = new_ent(supers=[root["name"]])
            c = new_ent(supers=[root["name"]])
            root["super_expr"] = "ONEOF (%s, %s ANDOR %s)" % (a["name"], b["name"], c["name"])
            simple_ok += [a["name"], b["name"], c["name"]]
            legal_complex.append([root["name"], b["name"], c["name"]])
        elif kind == "multi":
            p1 = new_ent()
            p2 = new_ent()
            ch = new_ent(supers=[p1["name"], p2["name"]])
            simple_ok += [p1["name"], p2["name"], ch["name"]]

    ent_names = [e["name"] for e in ents]

    if feat.get("selects", True):
        for si in range(r.randint(1, 2)):
            n = fresh([x + "_s" for x in NAME_POOL])
            members = []
            # defined (non-select) members with pairwise different underlying kinds keep typed values unambiguous anyway
            cands = simple_defs + enum_defs + (agg_defs if feat.get("agg_in_select") else [])
            r.shuffle(cands)
            members += cands[:r.randint(1, 3)]
            if renamed_pair and si == 0 and r.random() < 0.6:
                # the specialised type listed BEFORE the type it is defined from (like positive_ratio_measure / ratio_measure in the
                # AP schemas): a typed value must keep the keyword it was written with
                members = [renamed_pair[0], renamed_pair[1]] + [m for m in members if m not in renamed_pair]
            if r.random() < 0.7:
                members += r.sample(ent_names, min(len(ent_names), r.randint(1, 2)))
            if feat.get("select_of_select") and select_defs and r.random() < 0.6:
                members.append(r.choice(select_defs))
            types.append({"name": n, "def": {"k": "select", "members": members}})
            select_defs.append(n)

    renamed_select = []
    if feat.get("renamed_select") and select_defs:
        n = fresh([x + "_rs" for x in NAME_POOL])
        types.append({"name": n, "def": {"k": "def", "name": r.choice(select_defs)}})
        renamed_select.append(n)

    # ---- attribute types
    def rand_elem_type(depth):
        c = r.random()
        if c < 0.35:
            return {"k": r.choice(simples)}
        if c < 0.50 and simple_defs:
            return {"k": "def", "name": r.choice(simple_defs)}
        if c < 0.60 and enum_defs:
            return {"k": "def", "name": r.choice(enum_defs)}
        if c < 0.72 and select_defs:
            return {"k": "def", "name": r.choice(select_defs)}
        if c < 0.90:
            return {"k": "ent", "name": r.choice(ent_names)}
        if depth < 2 and feat.get("nested_agg", True):
            return rand_agg(depth + 1)
        return {"k": "int"}

    def rand_agg(depth):
        agg = r.choice(["LIST", "SET", "BAG"] + (["ARRAY"] if feat.get("array", True) else []))
        if agg == "ARRAY":
            lo = r.choice([0, 1, -1, 2])
            hi = lo + r.randint(0, 3)
        else:
            lo = r.choice([0, 0, 1, 2])
            hi = r.choice([None, None, lo + r.randint(0, 3)])
            if hi is not None and hi < 1:
                hi = 1
        t = {"k": "agg", "agg": agg, "lo": lo, "hi": hi, "elem": rand_elem_type(depth)}
        if feat.get("unique") and r.random() < 0.2 and t["elem"]["k"] in ("int", "string"):
            t["unique"] = True
        if agg == "ARRAY" and feat.get("optional_elems") and r.random() < 0.5:
            t["opt_elem"] = True        # ARRAY [..] OF OPTIONAL t: single positions may be unset ($ inside the aggregate)
        return t

    def rand_attr_type():
        c = r.random()
        if c < 0.30:
            return {"k": r.choice(simples)}
        if c < 0.42 and simple_defs:
            return {"k": "def", "name": r.choice(simple_defs)}
        if c < 0.52 and enum_defs:
            return {"k": "def", "name": r.choice(enum_defs + renamed_enum)}
        if c < 0.62 and select_defs:
            return {"k": "def", "name": r.choice(select_defs + renamed_select)}
        if c < 0.68 and agg_defs:
            return {"k": "def", "name": r.choice(agg_defs)}
        if c < 0.82:
            return {"k": "ent", "name": r.choice(ent_names)}
        return rand_agg(1)

    for e in ents:
        taken = set()
        # names must be unique along the inheritance closure
        tmp = Schema({"name": name, "types": types, "entities": ents})
        for anc in tmp.closure(e["name"]):
            for a in tmp.ents[anc]["attrs"]:
                taken.add(a["name"])
        for d in tmp.descendants(e["name"]):
            for a in tmp.ents[d]["attrs"]:
                taken.add(a["name"])
        for _ in range(r.randint(0 if e["supers"] else 1, 4)):
            an = r.choice([x for x in ATTR_POOL if x not in taken] or ["zz%d" % len(taken)])
            taken.add(an)
            e["attrs"].append({"name": e["name"][:2] + "_" + an, "type": rand_attr_type(), "optional": r.random() < 0.25})
        if r.random() < 0.25:
            # (the entity's full name: two entities sharing their first letters would otherwise hand one subtype the same derived attribute twice)
            e["derived"].append({"name": e["name"] + "_dv", "type": {"k": "real"}, "value": "3.5"})

    sch = Schema({"name": name, "types": types, "entities": ents})
    # redeclare an inherited simple attribute as derived (written `*` in the inherited slot)
    if feat.get("derived_redecl", True):
        for e in ents:
            if e["supers"] and len(e["supers"]) == 1 and r.random() < 0.35 and not any(e["name"] in lc for lc in legal_complex):
                par = sch.ents[e["supers"][0]]
                cands = [a for a in par["attrs"] if a["type"]["k"] in ("int", "real", "string") and not a.get("redecl")]
                if cands and not any(par["name"] in lc for lc in legal_complex):
                    a = r.choice(cands)
                    lit = {"int": "7", "real": "1.5", "string": "'dv'"}[a["type"]["k"]]
                    e["derived"].append({"name": a["name"], "type": a["type"], "redecl": par["name"], "value": lit})
                    break
    if feat.get("explicit_redecl"):
        for e in ents:
            if e["supers"] and len(e["supers"]) == 1 and r.random() < 0.5:
                par = sch.ents[e["supers"][0]]
                cands = [a for a in par["attrs"] if a["type"]["k"] == "number" and not a.get("redecl")]
                if cands and not any(d.get("redecl") for d in e["derived"]):
                    a = cands[0]
                    e["attrs"].append({"name": a["name"], "type": {"k": "int"}, "optional": a.get("optional", False), "redecl": par["name"]})
                    break
    if feat.get("inverse") and r.random() < 0.5:
        # a subtype that narrows an inherited entity-valued attribute (SELF\\sup.a : sub_of_target): the referrer's slot keeps its place,
        # the resolver of inverse attributes has to cope with the redeclaring STEPattribute
        done = False
        for e in ents:
            if done or not e["supers"] or len(e["supers"]) != 1 or any(e["name"] in lc for lc in legal_complex):
                continue
            par = sch.ents[e["supers"][0]]
            if any(par["name"] in lc for lc in legal_complex) or any(x.get("redecl") for x in e["attrs"] + e["derived"]):
                continue
            for a in par["attrs"]:
                t = a["type"]
                tgt = t["name"] if t["k"] == "ent" else (t["elem"]["name"] if t["k"] == "agg" and t["elem"]["k"] == "ent" else None)
                if a.get("redecl") or not tgt:
                    continue
                narrower = [d for d in sch.descendants(tgt) if d != tgt and d != e["name"]]
                if not narrower:
                    continue
                nt = r.choice(narrower)
                new_t = {"k": "ent", "name": nt} if t["k"] == "ent" else dict(t, elem={"k": "ent", "name": nt})
                e["attrs"].append({"name": a["name"], "type": new_t, "optional": a.get("optional", False), "redecl": par["name"]})
                done = True
                break
    if feat.get("inverse"):
        add_inverse(r, sch, ents)
    sd = {"name": name, "types": types, "entities": ents, "legal_complex": legal_complex, "simple_ok": simple_ok, "features": dict(feat)}
    return sd


def add_inverse(r, sch, ents):
    """INVERSE attributes over existing entity-typed (or aggregate-of-entity) attributes."""
    n = 0
    # an entity that inherits from the same supertype along two paths (diamond): put an aggregate inverse on that supertype,
    # inverting an attribute made for the purpose, so that an instance of the bottom entity has real referrers through it
    byname = {e["name"]: e for e in ents}

    def paths(e, top):
        if e == top:
            return 1
        return sum(paths(s_, top) for s_ in byname[e]["supers"])
    for e in ents:
        tops = [t["name"] for t in ents if t["name"] != e["name"] and paths(e["name"], t["name"]) >= 2]
        if tops and r.random() < 0.8:
            top = byname[r.choice(tops)]
            holder = r.choice([x for x in ents if not x.get("redecl_only")])
            an = "dia_%s" % holder["name"][:3]
            if any(a["name"] == an for a in holder["attrs"]):
                break
            if r.random() < 0.5:
                t = {"k": "agg", "agg": "LIST", "lo": 0, "hi": None, "elem": {"k": "ent", "name": top["name"]}}
                holder["attrs"].append({"name": an, "type": t, "optional": False})
            else:
                holder["attrs"].append({"name": an, "type": {"k": "ent", "name": top["name"]}, "optional": True})
            top["inverse"].append({"name": "inv_%s_d" % an, "ent": holder["name"], "attr": an, "agg": r.choice(["SET", "BAG"]), "lo": 0, "hi": None})
            n += 1
            break
    for e in ents:
        for a in e["attrs"]:
            t = a["type"]
            tgt = None
            if t["k"] == "ent":
                tgt = t["name"]
            elif t["k"] == "agg" and t["elem"]["k"] == "ent":
                tgt = t["elem"]["name"]
            if tgt and r.random() < 0.7 and n < 4:
                te = sch.ents[tgt]
                if any(iv["attr"] == a["name"] and iv["ent"] == e["name"] for iv in te["inverse"]):
                    continue
                single = r.random() < 0.2
                te["inverse"].append({"name": "inv_%s_%d" % (a["name"], n), "ent": e["name"], "attr": a["name"],
                                      "agg": None if single else r.choice(["SET", "BAG"]), "lo": 0, "hi": None})
                n += 1
                subs = [d for d in sch.descendants(e["name"]) if d != e["name"]]
                if subs and not single and r.random() < 0.4 and n < 5:
                    # the same attribute inverted once more, this time declared over a SUBTYPE of the entity that owns it:
                    # only referrers that are instances of that subtype count
                    te["inverse"].append({"name": "inv_%s_%ds" % (a["name"], n), "ent": r.choice(subs), "attr": a["name"],
                                          "agg": r.choice(["SET", "BAG"]), "lo": 0, "hi": None})
                    n += 1


# ============================================================ population model
def _real_text(r):
    """a conforming REAL spelling with <= 15 significant digits, exponent within +-300"""
    c = r.random()
    sign = r.choice(["", "", "-", "+"])
    if c < 0.2:
        return sign + "%d." % r.choice([0, 1, 2, 7, 10, 100, 12345, 999999])
    if c < 0.45:
        return sign + "%d.%s" % (r.randint(0, 9999), "".join(r.choice("0123456789") for _ in range(r.randint(1, 8))))
    if c < 0.7:
        # exactly 15 significant digits (first and last non-zero): the writer's precision limit
        digs = r.choice("123456789") + "".join(r.choice("0123456789") for _ in range(13)) + r.choice("123456789")
        k = r.randint(1, 15)
        mant = digs[:k] + "." + digs[k:]
    else:
        mant = "%d.%s" % (r.randint(1, 9), "".join(r.choice("0123456789") for _ in range(r.randint(0, 13))))
        if r.random() < 0.3:
            mant = "%d." % r.randint(1, 9)
    if r.random() < 0.35:
        return sign + mant
    exp = r.choice([0, 1, -1, 2, 5, -5, 10, -10, 37, -37, 38, -38, 39, -45, 100, -100, 280, -280])
    return sign + mant + "E" + r.choice(["", "+", ""]) * (exp >= 0) + str(exp)


def _int_value(r):
    c = r.random()
    if c < 0.5:
        return r.randint(-20, 20)
    if c < 0.8:
        return r.randint(-100000, 100000)
    return r.choice([2 ** 31 - 1, -2 ** 31, 2 ** 31, 2 ** 32, -2 ** 32, 2 ** 53, 2 ** 63 - 2, -2 ** 63 + 1, 10 ** 9, 10 ** 18, -10 ** 18, 1000, 999, 1001])


_STR_PLAIN = "abcxyzABCXYZ0189 _-+.,:;()#=$*/!?<>[]{}|~^%&@\""


def _str_body(r, rich=True):
    n = r.choice([0, 1, 1, 2, 3, 5, 8, 13, 30])
    big = r.random()
    if big < 0.015:
        n = r.choice([80, 300, 1100])        # longer than one output line / than the small fixed buffers
    elif big < 0.018:
        n = r.choice([4200, 9000])           # longer than BUFSIZ
    out = []
    for _ in range(n):
        c = r.random()
        if not rich or c < 0.70:
            out.append(r.choice(_STR_PLAIN))
        elif c < 0.78:
            out.append("''")
        elif c < 0.84:
            out.append("\\\\")
        elif c < 0.88:
            # PAGE directive: \S\ + any CHARACTER of the basic alphabet - including a (single) apostrophe and a reverse solidus
            out.append("\\S\\" + r.choice("ABCabc" "ABCabc" "'\\ 7(#;"))
        elif c < 0.91:
            out.append("\\P" + r.choice("ABCDEFGHI") + "\\")
        elif c < 0.94:
            out.append("\\X\\" + r.choice(["E9", "A0", "FF", "C4", "0A"]))
        elif c < 0.97:
            out.append("\\X2\\" + "".join(r.choice(["03B1", "00E9", "4E2D", "0041"]) for _ in range(r.randint(1, 3))) + "\\X0\\")
        elif c < 0.985:
            out.append("\\X4\\" + "".join(r.choice(["0001F600", "00000041"]) for _ in range(r.randint(1, 2))) + "\\X0\\")
        else:
            out.append(r.choice(["#12", "/*", "*/", "ENDSEC;", "'');", "(", ")"]).replace("'", "''"))
    return "".join(out)


def _bin_body(r):
    n = r.randint(0, 6)
    if n == 0:
        return "0"
    return r.choice("0123") + "".join(r.choice("0123456789ABCDEF") for _ in range(n))


class PopGen:
    """Conforming population for a schema."""

    def __init__(self, r, sch, opts=None):
        self.r = r
        self.s = sch
        self.o = opts or {}
        self.insts = []        # {"id", "shape": [entity names] (1 = simple leaf, >1 = complex parts), "parts": [...] once filled}
        self.by_ent = {}       # entity name -> [inst index] of instances that are instances of that entity

    def shapes(self):
        sd = self.s.sd
        sh = [[n] for n in sd.get("simple_ok", self.s.order) if not self.s.ents[n].get("abstract")]
        if self.o.get("complex", True):
            sh += [list(c) for c in sd.get("legal_complex", [])]
        return sh

    def covers(self, shape):
        """all entity names an instance of this shape is an instance of"""
        out = []
        for n in shape:
            for c in self.s.closure(n):
                if c not in out:
                    out.append(c)
        return out

    def add_inst(self, shape, iid=None):
        if iid is None:
            iid = self.next_id()
        rec = {"id": iid, "shape": shape, "parts": None}
        self.insts.append(rec)
        for c in self.covers(shape):
            self.by_ent.setdefault(c, []).append(len(self.insts) - 1)
        return rec

    def next_id(self):
        used = set(i["id"] for i in self.insts)
        mode = self.o.get("ids", "dense")
        if mode == "dense":
            k = (max(used) if used else 0) + 1
        elif mode == "sparse":
            k = (max(used) if used else 0) + self.r.choice([1, 2, 5, 10, 100, 997])
        else:  # scattered
            while True:
                k = self.r.choice([self.r.randint(1, 50), self.r.randint(1, 5000), self.r.choice([999, 1000, 1001, 1999, 2000, 2001, 10 ** 6])])
                if k not in used:
                    break
        return k

    def target_for(self, ent):
        """index of an instance that is an instance of `ent`; creates one if none exists. None if impossible."""
        c = self.by_ent.get(ent)
        if c and (self.r.random() < 0.9 or len(self.insts) >= self.o.get("max_insts", 40)):
            return self.r.choice(c)
        cands = [sh for sh in self.shapes() if ent in self.covers(sh)]
        if not cands:
            return self.r.choice(c) if c else None
        self.add_inst(self.r.choice(cands))
        return len(self.insts) - 1

    def value(self, t, depth=0):
        r = self.r
        k = t["k"]
        if k == "int":
            return ["int", _int_value(r)]
        if k == "real":
            return ["real", _real_text(r)]
        if k == "number":
            as_int = r.random() < 0.4
            if depth > 0 and not self.o.get("num_int_in_list", False):
                as_int = False      # open finding C01-K2: kept out of most plans
            return ["num", str(_int_value(r) % 100000) if as_int else _real_text(r)]
        if k == "string":
            return ["str", _str_body(r, self.o.get("rich_strings", True))]
        if k == "binary":
            return ["bin", _bin_body(r)]
        if k == "bool":
            return ["enum", r.choice("TF")]
        if k == "logical":
            return ["enum", r.choice("TFU")]
        if k == "enum":
            return ["enum", r.choice(t["items"]).upper()]
        if k == "ent":
            i = self.target_for(t["name"])
            if i is None:
                return None
            return ["ref", self.insts[i]["id"]]
        if k == "def":
            d = self.s.types[t["name"]]
            if d["k"] == "select":
                return self.select_value(d, depth)
            return self.value(d, depth)
        if k == "agg":
            return self.agg_value(t, depth)
        raise ValueError(k)

    def select_value(self, d, depth):
        r = self.r
        members = list(d["members"])
        r.shuffle(members)
        for m in members:
            if m in self.s.ents:
                v = self.value({"k": "ent", "name": m}, depth)
                if v is not None:
                    return v
                continue
            md = self.s.types[m]
            if md["k"] == "select":
                v = self.select_value(md, depth + 1)
                if v is not None:
                    return v
                continue
            v = self.value(md, depth + 1)
            if v is not None:
                return ["typed", m.upper(), v]
        return None

    def agg_value(self, t, depth):
        r = self.r
        lo, hi = t["lo"], t["hi"]
        if t["agg"] == "ARRAY":
            n = hi - lo + 1
        else:
            top = hi if hi is not None else lo + r.choice([0, 1, 2, 3, 6])
            n = r.randint(lo, max(lo, top))
            if hi is None and depth == 0 and r.random() < 0.02:
                n = r.choice([40, 130, 600])     # an aggregate that spans many output lines
        vals = []
        tries = 0
        while len(vals) < n and tries < 50 + 2 * n:
            tries += 1
            if t.get("opt_elem") and r.random() < 0.35:
                vals.append(["null"])
                continue
            v = self.value(t["elem"], depth + 1)
            if v is None:
                return None
            if (t.get("unique") or t["agg"] == "SET") and v in vals:
                continue
            vals.append(v)
        if len(vals) < max(lo, 0) and t["agg"] != "ARRAY":
            return None
        if t["agg"] == "ARRAY" and len(vals) < n:
            return None
        return ["list", vals]

    def fill(self, rec):
        parts = []
        if len(rec["shape"]) == 1:
            ent = rec["shape"][0]
            vals = []
            for owner, a, derived in self.s.internal_slots(ent):
                vals.append(self.slot_value(a, derived))
            parts.append({"ent": ent.upper(), "vals": vals})
        else:
            names = []
            for n in rec["shape"]:
                for c in self.s.closure(n):
                    if c not in names:
                        names.append(c)
            # an attribute that one of the parts' entities redeclares as DERIVEd is written `*` in the part that declares it
            derived = set((d["redecl"], d["name"]) for n in names for d in self.s.ents[n].get("derived", []) if d.get("redecl"))
            for n in sorted(names, key=lambda x: x.upper()):
                vals = [self.slot_value(a, (n, a["name"]) in derived) for a in self.s.own_slots(n)]
                parts.append({"ent": n.upper(), "vals": vals})
        rec["parts"] = parts

    def slot_value(self, a, derived):
        if derived:
            return ["derived"]
        if a.get("optional") and self.r.random() < 0.3:
            return ["null"]
        v = self.value(a["type"])
        if v is None:
            if a.get("optional"):
                return ["null"]
            raise Infeasible("no value for %s" % a["name"])
        return v

    def generate(self, n):
        shapes = self.shapes()
        if not shapes:
            raise Infeasible("schema has no instantiable entity")
        for _ in range(n):
            self.add_inst(self.r.choice(shapes))
        i = 0
        while i < len(self.insts):
            self.fill(self.insts[i])
            i += 1
            if len(self.insts) > 400:
                raise Infeasible("population explodes")
        if self.o.get("shuffle"):
            self.r.shuffle(self.insts)
        return [{"id": x["id"], "parts": x["parts"]} for x in self.insts]


class Infeasible(Exception):
    pass


# ================================================================== renderer
# The renderer first produces the token list of the file; every gap between two tokens has a
# stable key ("f:k" file level, "h<j>:k" header entity j, "i<id>:k" instance <id>) so that token
# separators (white space, comments) are explicit, individually removable plan items.
def value_tokens(v, r=None):
    k = v[0]
    if k == "int":
        n = v[1]
        return [(str(n), "val")]
    if k in ("real", "num"):
        return [(v[1], "val")]
    if k == "str":
        return [("'" + v[1] + "'", "val")]
    if k == "bin":
        return [('"' + v[1] + '"', "val")]
    if k == "enum":
        return [("." + v[1] + ".", "val")]
    if k == "ref":
        return [("#%d" % v[1], "val")]
    if k == "null":
        # ["null"] is written `$`; ["null", "empty"] leaves the position empty (`,,` / `(,` / `,)`), which stepcode documents as "unset" too
        return [("" if len(v) > 1 and v[1] == "empty" else "$", "val")]
    if k == "derived":
        return [("*", "val")]
    if k == "list":
        out = [("(", "(")]
        for i, x in enumerate(v[1]):
            if i:
                out.append((",", ","))
            out += value_tokens(x)
        out.append((")", ")"))
        return out
    if k == "typed":
        return [(v[1], "kw"), ("(", "(")] + value_tokens(v[2]) + [(")", ")")]
    raise ValueError(k)


def part_tokens(p):
    out = [(p["ent"], "kw"), ("(", "(")]
    for i, x in enumerate(p["vals"]):
        if i:
            out.append((",", ","))
        out += value_tokens(x)
    out.append((")", ")"))
    return out


def instance_tokens(inst, state=None):
    out = []
    if state:
        out.append((state, "state"))
    out += [("#%d" % inst["id"], "#id"), ("=", "=")]
    if len(inst["parts"]) == 1:
        out += part_tokens(inst["parts"][0])
    else:
        out.append(("(", "("))
        for p in inst["parts"]:
            out += part_tokens(p)
        out.append((")", ")"))
    out.append((";", ";"))
    return out


def file_lines(hdr, insts, working=False, states=None):
    """-> list of (line key, tokens); the file is the lines joined by newlines"""
    first = "STEP_WORKING_SESSION" if working else "ISO-10303-21"
    last = "END-STEP_WORKING_SESSION" if working else "END-ISO-10303-21"
    # "ISO-10303-21;", "HEADER;", "ENDSEC;", "DATA;" are single terminals of the grammar: no gap inside them
    lines = [("f0", [(first + ";", "kw;")]), ("f1", [("HEADER;", "kw;")])]
    for j, h in enumerate(hdr):
        lines.append(("h%d" % j, part_tokens(h) + [(";", ";")]))
    lines.append(("f2", [("ENDSEC;", "kw;")]))
    lines.append(("f3", [("DATA;", "kw;")]))
    for n, inst in enumerate(insts):
        lines.append(("i%d" % inst["id"], instance_tokens(inst, states[n] if states else None)))
    lines.append(("f4", [("ENDSEC;", "kw;")]))
    lines.append(("f5", [(last + ";", "kw;")]))
    return lines


_ID_TOKEN = re.compile(r"^#([0-9]+)$")
_UINT_TOKEN = re.compile(r"^[0-9]+$")
_REAL_TOKEN = re.compile(r"^([+-]?)([0-9]+)\.([0-9]*)(E[+-]?[0-9]+)?$")


def respell(text, kind, spell):
    """alternative conforming spellings of a token: instance names with leading zeros (#007), unsigned integers with a plus sign"""
    if not spell:
        return text
    if kind in ("#id", "val"):
        m = _ID_TOKEN.match(text)
        if m and spell.get("id_pad"):
            return "#" + m.group(1).rjust(spell["id_pad"], "0")
        if kind == "val" and _UINT_TOKEN.match(text):
            if spell.get("zero_pad"):
                text = "00" + text               # digits may start with zeros: 007
            if spell.get("plus_int"):
                text = "+" + text
            return text
        if kind == "val" and spell.get("zero_pad"):
            m = _REAL_TOKEN.match(text)
            if m:
                sign, ip, fp, ex = m.groups()
                if ex:
                    es = ex[1] if ex[1] in "+-" else ""
                    ex = "E" + es + "00" + ex[1 + len(es):]       # 1.5E+007
                return (sign or "") + "0" + ip + "." + fp + (ex or "")   # 01.5
    return text


def render(lines, seps=None, eol="\n", spell=None):
    """seps: {"<line key>:<k>": text} placed after the k-th token of that line (k = -1: before the first token);
    eol: what stands between two records (Part 21 does not ask for a line break: "" and " " are as conforming as "\n")"""
    seps = seps or {}
    out = []
    for key, toks in lines:
        s = seps.get("%s:-1" % key, "")
        for k, (text, kind) in enumerate(toks):
            s += respell(text, kind, spell) + seps.get("%s:%d" % (key, k), "")
        out.append(s)
    return eol.join(out) + eol


SEP_SPACE = [" ", "  ", "   "]
SEP_NL = ["\n", "\n  ", "\r\n", "\t", " \n "]
SEP_COMMENT = {"plain": ["/* note */", "/*c*/", "/* */", "/**/"], "quote": ["/*'*/"], "paren": ["/*(*/", "/*)*/"], "hash": ["/*#1=FOO(1);*/"],
               "star": ["/*a*b*/", "/* * */", "/** /*/"], "nl": ["/*\n*/"], "semi": ["/*;*/"]}


LONG_COMMENTS = ["/*" + "c" * n + "*/" for n in (8190, 8193, 20000)] + ["/* " + "long comment; with 'quotes' and #1=X(); inside * " * 200 + "*/"]


def sep_kind(text):
    if text in LONG_COMMENTS:
        return "cmt-long"
    if "/*" in text:
        for k, v in SEP_COMMENT.items():
            if text in v:
                return "cmt-" + k
        return "cmt"
    if "\n" in text or "\t" in text or "\r" in text:
        return "nl"
    return "sp"


def gen_seps(r, lines, p_ws, p_cmt_between=0.0, p_cmt_in=0.0, sections="hif"):
    """seeded separators: white space with probability p_ws per gap; comments between records / inside records
    with their own probabilities (comments inside records are kept out of most plans, see known findings)"""
    seps = {}
    for key, toks in lines:
        if key[0] not in sections:
            continue
        for k in range(-1, len(toks)):
            if key == "f0" and k == -1:
                continue      # nothing may precede the file's first terminal
            inside = (k >= 0 and k < len(toks) - 1 and key[0] != "f")
            if inside and key[0] == "i" and (k in (0, 1) or k == len(toks) - 2):
                inside = False      # after the instance name, after '=' and before the ';': where every reader skips comments
            pc = p_cmt_in if inside else p_cmt_between
            if pc and r.random() < pc:
                seps["%s:%d" % (key, k)] = r.choice(SEP_COMMENT[r.choice(sorted(SEP_COMMENT))])
                if r.random() < 0.03:
                    seps["%s:%d" % (key, k)] = r.choice(LONG_COMMENTS)     # a comment has no maximum length
            elif r.random() < p_ws:
                seps["%s:%d" % (key, k)] = r.choice(SEP_SPACE) if r.random() < 0.6 else r.choice(SEP_NL)
    return seps


def sep_features(lines, seps):
    """for known-finding signatures: where the remaining separators sit.  Coarse features
    (cmt-in-record, cmt-between-records, ws-in-record, ws-between-records) plus one detailed feature per separator."""
    out = []
    bykey = dict(lines)
    for sk in sorted(seps):
        key, k = sk.rsplit(":", 1)
        k = int(k)
        toks = bykey.get(key)
        if toks is None:
            continue
        prev = toks[k][1] if k >= 0 else "bol"
        nxt = toks[k + 1][1] if k + 1 < len(toks) else "eol"
        sect = {"f": "file", "h": "header", "i": "data"}[key[0]]
        kind = sep_kind(seps[sk])
        inside = prev != "bol" and nxt != "eol" and key[0] != "f"
        head = inside and key[0] == "i" and k in (0, 1)       # after the instance name / after '='
        tail = inside and key[0] == "i" and k == len(toks) - 2 and not head      # between the closing parenthesis and the ';'
        coarse = ("cmt" if kind.startswith("cmt") else "ws") + ("-at-record-head" if head else ("-at-record-tail" if tail else ("-in-record" if inside else "-between-records")))
        for f in (coarse, coarse + ":" + sect, "sep:%s:%s~%s:%s" % (sect, prev, nxt, kind)):
            if f not in out:
                out.append(f)
    return out


def default_header(r, schema_name, rich=True):
    def strs(n):
        return ["list", [["str", _str_body(r, False) or "x"] for _ in range(n)]]
    return [
        {"ent": "FILE_DESCRIPTION", "vals": [strs(r.randint(1, 3) if rich else 1), ["str", "2;1"]]},
        {"ent": "FILE_NAME", "vals": [["str", "f.p21"], ["str", "2001-02-03T04:05:06"], strs(r.randint(1, 3) if rich else 1),
                                      strs(r.randint(1, 2) if rich else 1), ["str", "pp"], ["str", "os"], ["str", "au"]]},
        {"ent": "FILE_SCHEMA", "vals": [["list", [["str", schema_name.upper()]]]]},
    ] + ([e for e in (
        # the optional header entities of ISO 10303-21 edition 2 (each at most once, in this order)
        {"ent": "FILE_POPULATION", "vals": [["str", schema_name.upper()], ["str", "SECTION_BOUNDARY"], ["null"]]},
        {"ent": "SECTION_LANGUAGE", "vals": [["null"], ["str", r.choice(["en", "de", "fr-CH"])]]},
        {"ent": "SECTION_CONTEXT", "vals": [["null"], strs(r.randint(1, 2))]},
    ) if r.random() < 0.3] if rich else [])


# ==================================================== independent P21 parser
class P21SyntaxError(Exception):
    pass


_TOK = re.compile(rb"""
    (?P<ws>[ \t\r\n\f\v]+)
  | (?P<comment>/\*.*?\*/)
  | (?P<ref>\#[0-9]+)
  | (?P<real>[+-]?[0-9]+\.[0-9]*(?:E[+-]?[0-9]+)?)
  | (?P<int>[+-]?[0-9]+)
  | (?P<str>'(?:\\X[24]\\[0-9A-F]*\\X0\\|\\X\\[0-9A-F][0-9A-F]|\\P[A-I]\\|\\S\\.|\\\\|[^'\\]|''|\\)*')
  | (?P<bin>"[0-3][0-9A-F]*")
  | (?P<enum>\.[A-Z_][A-Z0-9_]*\.)
  | (?P<kw>!?[A-Za-z_][A-Za-z0-9_\-]*)
  | (?P<punct>[()=,;$*])
""", re.X | re.S)


def tokenize(data):
    """-> list of (kind, text, offset). Comments/whitespace dropped. Raises P21SyntaxError."""
    if isinstance(data, str):
        data = data.encode("latin-1")
    pos = 0
    out = []
    n = len(data)
    while pos < n:
        m = _TOK.match(data, pos)
        if not m:
            raise P21SyntaxError("bad token at offset %d: %r" % (pos, data[pos:pos + 20]))
        k = m.lastgroup
        if k not in ("ws", "comment"):
            out.append((k, m.group(k).decode("latin-1"), pos))
        pos = m.end()
    return out


class Parser:
    def __init__(self, data):
        self.toks = tokenize(data)
        self.i = 0

    def peek(self):
        return self.toks[self.i] if self.i < len(self.toks) else ("eof", "", -1)

    def next(self):
        t = self.peek()
        self.i += 1
        return t

    def expect(self, kind, text=None):
        t = self.next()
        if t[0] != kind or (text is not None and t[1] != text):
            raise P21SyntaxError("expected %s %r, got %s %r at offset %d" % (kind, text, t[0], t[1], t[2]))
        return t

    def param(self):
        t = self.next()
        k, s = t[0], t[1]
        if k == "int":
            return ["int", int(s)]
        if k == "real":
            return ["real", s]
        if k == "str":
            return ["str", s[1:-1]]
        if k == "bin":
            return ["bin", s[1:-1]]
        if k == "enum":
            return ["enum", s[1:-1]]
        if k == "ref":
            return ["ref", int(s[1:])]
        if k == "punct" and s == "$":
            return ["null"]
        if k == "punct" and s == "*":
            return ["derived"]
        if k == "punct" and s == "(":
            return ["list", self.param_list_rest()]
        if k == "kw":
            self.expect("punct", "(")
            v = self.param()
            self.expect("punct", ")")
            return ["typed", s, v]
        raise P21SyntaxError("unexpected %s %r at offset %d" % (k, s, t[2]))

    def param_list_rest(self):
        """after '(' : params until ')'"""
        vals = []
        if self.peek()[0] == "punct" and self.peek()[1] == ")":
            self.next()
            return vals
        while True:
            vals.append(self.param())
            t = self.next()
            if t[0] == "punct" and t[1] == ",":
                continue
            if t[0] == "punct" and t[1] == ")":
                return vals
            raise P21SyntaxError("expected , or ) got %r at offset %d" % (t[1], t[2]))

    def simple_record(self):
        kw = self.expect("kw")
        self.expect("punct", "(")
        return {"ent": kw[1], "vals": self.param_list_rest()}

    def kw_semicolon(self, word):
        t = self.next()
        if t[0] != "kw" or t[1] != word:
            raise P21SyntaxError("expected %s got %r at offset %d" % (word, t[1], t[2]))
        self.expect("punct", ";")

    def file(self):
        t = self.next()
        if t[0] == "kw" and t[1] == "ISO-10303-21":
            working = False
        elif t[0] == "kw" and t[1] == "STEP_WORKING_SESSION":
            working = True
        else:
            raise P21SyntaxError("bad file start %r" % (t[1],))
        self.expect("punct", ";")
        self.kw_semicolon("HEADER")
        header = []
        while not (self.peek()[0] == "kw" and self.peek()[1] == "ENDSEC"):
            header.append(self.simple_record())
            self.expect("punct", ";")
        self.kw_semicolon("ENDSEC")
        self.kw_semicolon("DATA")
        insts = []
        while not (self.peek()[0] == "kw" and self.peek()[1] == "ENDSEC"):
            state = None
            if working and self.peek()[0] == "kw" and self.peek()[1] in ("C", "I", "N", "D"):
                state = self.next()[1]
            r = self.expect("ref")
            self.expect("punct", "=")
            if self.peek()[0] == "punct" and self.peek()[1] == "(":
                self.next()
                parts = []
                while not (self.peek()[0] == "punct" and self.peek()[1] == ")"):
                    parts.append(self.simple_record())
                self.next()
                if not parts:
                    raise P21SyntaxError("empty complex record")
            else:
                parts = [self.simple_record()]
            self.expect("punct", ";")
            rec = {"id": int(r[1][1:]), "parts": parts, "off": r[2]}
            if working:
                rec["state"] = state
            insts.append(rec)
        self.kw_semicolon("ENDSEC")
        t = self.next()
        want = "END-STEP_WORKING_SESSION" if working else "END-ISO-10303-21"
        if t[0] != "kw" or t[1] != want:
            raise P21SyntaxError("expected %s got %r" % (want, t[1]))
        self.expect("punct", ";")
        if self.peek()[0] != "eof":
            raise P21SyntaxError("trailing tokens after end marker")
        return {"working": working, "header": header, "insts": insts}


def parse(data):
    return Parser(data).file()


# ================================================================ equivalence
def fmt15(x):
    return "%.15g" % x


def real_equiv(a, b):
    try:
        fa, fb = float(a), float(b)
    except ValueError:
        return False
    return fmt15(fa) == fmt15(fb)


def value_diff(model, got, path="v"):
    """None when equivalent under C01's value rule, else a short description (class suffix, detail)."""
    mk, gk = model[0], got[0]
    if mk == "num":
        if gk == "int":
            return None if real_equiv(model[1], str(got[1])) else ("number", "%s: NUMBER %s came back as %s" % (path, model[1], got[1]))
        if gk == "real":
            return None if real_equiv(model[1], got[1]) else ("number", "%s: NUMBER %s came back as %s" % (path, model[1], got[1]))
        return ("number-kind", "%s: NUMBER %s came back as %s" % (path, model[1], got))
    if mk != gk:
        return ("kind/%s-as-%s" % (mk, gk), "%s: %s came back as %s" % (path, model, got))
    if mk == "real":
        return None if real_equiv(model[1], got[1]) else ("real", "%s: real %s came back as %s" % (path, model[1], got[1]))
    if mk == "list":
        if len(model[1]) != len(got[1]):
            return ("aggregate-length", "%s: aggregate of %d elements came back with %d: %s" % (path, len(model[1]), len(got[1]), got[1][:6]))
        for i, (a, b) in enumerate(zip(model[1], got[1])):
            d = value_diff(a, b, "%s[%d]" % (path, i))
            if d:
                return ("aggregate-element/" + d[0], d[1])
        return None
    if mk == "typed":
        if model[1] != got[1]:
            return ("select-keyword", "%s: typed value %s came back as %s" % (path, model[1], got[1]))
        d = value_diff(model[2], got[2], path + "." + model[1])
        if d:
            return ("select-value/" + d[0], d[1])
        return None
    if mk in ("null", "derived"):
        return None
    if model[1] != got[1]:
        return (mk, "%s: %s %r came back as %r" % (path, mk, model[1], got[1]))
    return None


def _same_number(a, b):
    """exact numeric equality of two decimal spellings (no rounding: Decimal keeps every digit)"""
    import decimal
    try:
        return decimal.Decimal(a) == decimal.Decimal(b)
    except decimal.InvalidOperation:
        return a == b


def strict_same(model, got):
    """harness self-check: the parser must reproduce the model exactly (num ~ int/real by text)."""
    mk = model[0]
    if mk == "num":
        if got[0] == "int":
            return "." not in model[1] and _same_number(str(got[1]), model[1])
        return got[0] == "real" and _same_number(got[1], model[1])
    if mk != got[0]:
        return False
    if mk == "real":
        return _same_number(model[1], got[1])      # the renderer may choose another conforming spelling (01.5E+007) of the same number
    if mk == "list":
        return len(model[1]) == len(got[1]) and all(strict_same(a, b) for a, b in zip(model[1], got[1]))
    if mk == "typed":
        return model[1] == got[1] and strict_same(model[2], got[2])
    if mk in ("null", "derived"):
        return True
    return model[1] == got[1]


def insts_self_check(model_insts, parsed_insts):
    if len(model_insts) != len(parsed_insts):
        return "instance count %d vs %d" % (len(model_insts), len(parsed_insts))
    for m, p in zip(model_insts, parsed_insts):
        if m["id"] != p["id"] or len(m["parts"]) != len(p["parts"]):
            return "instance #%d header" % m["id"]
        for mp, pp in zip(m["parts"], p["parts"]):
            if mp["ent"] != pp["ent"] or len(mp["vals"]) != len(pp["vals"]):
                return "instance #%d part %s" % (m["id"], mp["ent"])
            for a, b in zip(mp["vals"], pp["vals"]):
                if not strict_same(a, b):
                    return "instance #%d value %r vs %r" % (m["id"], a, b)
    return None


def refs_of(v, out):
    if v[0] == "ref":
        out.append(v[1])
    elif v[0] == "list":
        for x in v[1]:
            refs_of(x, out)
    elif v[0] == "typed":
        refs_of(v[2], out)
    return out


def inst_refs(inst):
    out = []
    for p in inst["parts"]:
        for v in p["vals"]:
            refs_of(v, out)
    return out


def value_features(insts):
    """model-derived plan features for known-finding signatures, e.g. value:num-int-in-list, shape:complex"""
    out = []

    def add(f):
        if f not in out:
            out.append(f)

    def walk(v, ctx, depth=0):
        k = v[0]
        kind = k
        if k == "num":
            kind = "num-int" if "." not in v[1] else "num-real"
        add("value:%s%s" % (kind, ctx))
        if k == "ref" and depth >= 2:
            add("value:ref-in-nested-list")        # an entity reference inside an aggregate of aggregates
        if k == "list":
            for x in v[1]:
                walk(x, "-in-list", depth + 1)
        elif k == "typed":
            walk(v[2], "-in-typed" + ctx, depth)
    for x in insts:
        if len(x["parts"]) > 1:
            add("shape:complex")
        for p in x["parts"]:
            for v in p["vals"]:
                walk(v, "")
    return out


def type_category(sch, t):
    """coarse category of an attribute type, for known-finding signatures"""
    k = t["k"]
    if k in SIMPLE:
        return k
    if k == "ent":
        return "ent"
    if k == "agg":
        return "agg-of-" + type_category(sch, t["elem"])
    if k == "def":
        d = sch.types[t["name"]]
        if d["k"] == "def":
            return "renamed-" + type_category(sch, d).replace("renamed-", "")
        if d["k"] in ("enum", "select"):
            return d["k"]
        if d["k"] == "agg":
            return "defagg-of-" + type_category(sch, d["elem"])
        return "def-" + d["k"]
    return k


def slot_type_features(sch, insts):
    """attr-type:<category> for every slot that holds a value (not $ / *) in the model"""
    out = []
    for x in insts:
        for p in x["parts"]:
            ent = None
            for n in sch.order:
                if n.upper() == p["ent"]:
                    ent = n
            if ent is None:
                continue
            slots = sch.internal_slots(ent) if len(x["parts"]) == 1 else [(ent, a, False) for a in sch.own_slots(ent)]
            for (owner, a, derived), v in zip(slots, p["vals"]):
                cat = type_category(sch, a["type"])
                fs = ["slot-type:" + cat]
                if v[0] not in ("null", "derived"):
                    fs.append("attr-type:" + cat)
                for f in fs:
                    if f not in out:
                        out.append(f)
    return out
