"""Generated-schema libraries: EXPRESS text -> exp2cxx (plain flavour of the freshly
built generator) -> objects compiled per flavour -> p21sim_<name> executor.

Everything is cached under /verif/.build/schemas/<key>/ where key covers the
schema text, the exp2cxx binary, the compile flags and the state of stepcode's
headers, so any change in /repo's working tree that could matter re-generates.
"""
import concurrent.futures
import glob
import os
import shutil
import subprocess

from . import build, engines
from .build import BUILD, REPO, VERIF


class SchemaRejected(Exception):
    pass


def _headers_state():
    h = []
    for root in ("include", "src/cldai", "src/cleditor", "src/clutils", "src/clstepcore", "src/cllazyfile", "src/base"):
        for dp, dn, fn in os.walk(os.path.join(REPO, root)):
            for f in sorted(fn):
                if f.endswith(".h"):
                    p = os.path.join(dp, f)
                    st = os.stat(p)
                    h.append("%s:%d:%d" % (p, st.st_mtime_ns, st.st_size))
    h.sort()
    return build.sha("\n".join(h))


_hs = None


def headers_state():
    global _hs
    if _hs is None:
        _hs = _headers_state()
    return _hs


def schema_key(name, text, flavour):
    exp2cxx = build.tool("plain", "exp2cxx")
    libexpress = os.path.join(build.libdir("plain"), "libexpress.so")
    return build.sha(name, text, build.file_sha(exp2cxx), build.file_sha(os.path.realpath(libexpress)),
                     build.FLAGS[flavour], headers_state())


def generate(name, text, outdir):
    """Run exp2cxx (plain flavour: the sanitised generator may abort on its own defects, which is C06's subject)."""
    os.makedirs(outdir, exist_ok=True)
    exp = os.path.join(outdir, name + ".exp")
    with open(exp, "w") as f:
        f.write(text)
    env = dict(os.environ)
    env["LD_LIBRARY_PATH"] = build.libdir("plain")
    p = subprocess.run([build.tool("plain", "exp2cxx"), exp], cwd=outdir, env=env,
                       stdout=subprocess.PIPE, stderr=subprocess.STDOUT, timeout=300)
    if p.returncode != 0:
        raise SchemaRejected("exp2cxx exit %d on %s:\n%s" % (p.returncode, name, p.stdout.decode("utf-8", "replace")[-2000:]))


def _compile(args):
    flavour, src, obj, cwd = args
    cmd = ["g++", "-std=c++11"] + build.FLAGS[flavour].split() + ["-DSC_SDAI_UNITY_BUILD", "-DSC_STATIC"] + \
        build.include_flags(flavour) + ["-I" + cwd, "-c", src, "-o", obj]
    p = subprocess.run(cmd, cwd=cwd, stdout=subprocess.PIPE, stderr=subprocess.STDOUT)
    if p.returncode != 0:
        return "compile failed: %s\n%s" % (src, p.stdout.decode("utf-8", "replace")[-3000:])
    return None


def schema_objects(name, text, flavour):
    """-> (dir, [objects]) for the schema library; raises SchemaRejected when the generator
    refuses the schema or its output does not compile (that is C02/C04 territory, reported as such)."""
    key = schema_key(name, text, flavour)
    d = os.path.join(BUILD, "schemas", "%s-%s-%s" % (name, flavour, key))
    stamp = os.path.join(d, "ok")
    with build.lock("schema-" + key):
        if os.path.exists(stamp):
            return d, sorted(glob.glob(os.path.join(d, "*.o")))
        rej = os.path.join(d, "rejected")
        if os.path.exists(rej):
            raise SchemaRejected(open(rej).read())
        if os.path.isdir(d):
            shutil.rmtree(d)
        try:
            generate(name, text, d)
            up = None
            for f in os.listdir(d):
                if f.endswith("_unity_entities.cc"):
                    up = f[:-len("_unity_entities.cc")]
            if up is None:
                raise SchemaRejected("exp2cxx wrote no unity file for " + name)
            srcs = [up + "_unity_entities.cc", up + "_unity_types.cc", "SdaiAll.cc", "compstructs.cc", "schema.cc", up + ".cc", up + ".init.cc"]
            jobs = [(flavour, os.path.join(d, s), os.path.join(d, s[:-3] + ".o"), d) for s in srcs]
            with concurrent.futures.ThreadPoolExecutor(max_workers=8) as ex:
                errs = [e for e in ex.map(_compile, jobs) if e]
            if errs:
                raise SchemaRejected(errs[0])
        except SchemaRejected as e:
            os.makedirs(d, exist_ok=True)
            with open(rej, "w") as f:
                f.write(str(e))
            raise
        open(stamp, "w").write("ok\n")
        return d, sorted(glob.glob(os.path.join(d, "*.o")))


def p21sim(name, text, flavour="san"):
    """Executor binary for one schema."""
    d, objs = schema_objects(name, text, flavour)
    so = engines.simexec_obj(flavour)
    with build.lock("p21sim-" + os.path.basename(d)):
        src = os.path.join(engines.ENG_SRC, "p21sim", "p21sim.cc")
        hdr = os.path.join(engines.ENG_SRC, "common", "simexec.h")
        pobj = os.path.join(BUILD, "engines", flavour, "p21sim.o")
        with build.lock("p21sim-obj-" + flavour):
            if build.newer(pobj, [src, hdr] + build.static_libs(flavour)):
                build.compile_cxx(flavour, src, pobj, extra=["-I" + os.path.join(engines.ENG_SRC, "common")])
        out = os.path.join(d, "p21sim")
        if build.newer(out, [pobj, so] + objs + build.static_libs(flavour)):
            build.link_cxx(flavour, [pobj, so] + objs, out, wraps=engines.WRAPS)
        try:
            os.utime(d)      # "recently used", for setup's pruning of stale cache entries
        except OSError:
            pass
        return out


def prune(keep_dirs, max_dirs=60):
    """Bound the disk used by cached schema builds."""
    root = os.path.join(BUILD, "schemas")
    if not os.path.isdir(root):
        return
    ds = [os.path.join(root, x) for x in os.listdir(root)]
    ds = [x for x in ds if os.path.isdir(x) and x not in keep_dirs]
    ds.sort(key=lambda x: os.stat(x).st_mtime)
    while len(ds) > max_dirs:
        shutil.rmtree(ds.pop(0), ignore_errors=True)
