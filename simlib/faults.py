"""The simulated disk's fault layer: damages stored bytes between the moment a file is
written (by the generator or by stepcode itself) and the moment stepcode reads it.

Faults are plan items attached to the read they hit; positions are taken modulo what
exists in the file at that moment (byte count, token count, tokens of a class), so that
removing earlier ops or instances never invalidates a fault - this is what lets the
minimiser drop and simplify them independently.  Files travel as latin-1 strings.
"""
import re

_LTOK = re.compile(r"""
    (?P<ws>[ \t\r\n]+)
  | (?P<comment>/\*.*?\*/)
  | (?P<ref>\#[0-9]+)
  | (?P<number>[+-]?[0-9]+(?:\.[0-9]*)?(?:E[+-]?[0-9]+)?)
  | (?P<string>'(?:\\X[24]\\[0-9A-F]*\\X0\\|\\X\\[0-9A-F][0-9A-F]|\\P[A-I]\\|\\S\\.|\\\\|[^'\\]|''|\\)*')
  | (?P<binary>"[0-9A-F]*")
  | (?P<enum>\.[A-Za-z_][A-Za-z0-9_]*\.)
  | (?P<keyword>!?[A-Za-z_][A-Za-z0-9_\-]*)
  | (?P<punct>[()=,;$*])
  | (?P<other>.)
""", re.X | re.S)


def tokens(text):
    """lenient tokeniser: never fails; -> [(start, end, kind)] without white space"""
    out = []
    for m in _LTOK.finditer(text):
        k = m.lastgroup
        if k != "ws":
            out.append((m.start(), m.end(), k))
    return out


def _instances(text):
    """[(start, end)] of data-section records '#n=...;' found leniently"""
    out = []
    d = text.find("DATA;")
    if d < 0:
        return out
    for m in re.finditer(r"#[0-9]+\s*=[^;]*;", text[d:], re.S):
        out.append((d + m.start(), d + m.end()))
    return out


STRETCH_CLASSES = ("number", "keyword", "enum", "string", "binary", "comment", "ref")


def apply_fault(text, f):
    """-> (new text, fired: bool, where: short description of the token class / region hit)"""
    kind = f["kind"]
    n = len(text)
    if kind == "truncate":
        at = f["at"] % (n + 1)
        if f.get("bias") == "complex":
            # land inside an externally mapped record when the file has one (in-flight state: some parts read, some not)
            spans = []
            for m in re.finditer(r"#[0-9]+\s*=\s*\(", text):
                semi = text.find(";", m.end())
                if semi > 0:
                    spans.append((m.end(), semi))
            if spans:
                a, b = spans[f["at"] % len(spans)]
                at = a + (f["at"] // 7) % max(1, b - a)
        return text[:at], at < n, _region(text, at)
    if kind in ("flip", "nul", "hibit", "setbyte"):
        if n == 0:
            return text, False, "empty"
        at = f["at"] % n
        c = ord(text[at])
        if kind == "flip":
            nc = c ^ (f.get("mask", 1) & 0xFF or 1)
        elif kind == "nul":
            nc = 0
        elif kind == "hibit":
            nc = c | 0x80
        else:
            nc = f.get("byte", 0) & 0xFF
        return text[:at] + chr(nc) + text[at + 1:], nc != c, _region(text, at)
    toks = tokens(text)
    if kind in ("tok-del", "tok-dup", "tok-swap"):
        if len(toks) < 2:
            return text, False, "no-tokens"
        k = f["tok"] % (len(toks) - 1)
        s, e, tk = toks[k]
        if kind == "tok-del":
            return text[:s] + text[e:], True, tk
        if kind == "tok-dup":
            return text[:e] + text[s:e] + text[e:], True, tk
        s2, e2, tk2 = toks[k + 1]
        return text[:s] + text[s2:e2] + text[e:s2] + text[s:e] + text[e2:], text[s:e] != text[s2:e2], tk + "~" + tk2
    if kind == "stretch":
        cls = f.get("cls", "number")
        L = int(f.get("len", 1000))
        cands = [t for t in toks if t[2] == cls]
        if not cands:
            if cls == "comment" and toks:
                s, e, tk = toks[f["tok"] % len(toks)]
                return text[:e] + "/*" + "c" * L + "*/" + text[e:], True, "comment-after-" + tk
            return text, False, "no-" + cls
        s, e, tk = cands[f["tok"] % len(cands)]
        old = text[s:e]
        if cls == "number":
            if "." in old and f.get("part") == "frac":
                new = old.split(".")[0] + "." + "7" * L
            elif "E" in old and f.get("part") == "exp":
                new = old.split("E")[0] + "E" + "9" * L
            else:
                new = old[:1] + "1" * L + old[1:]
        elif cls == "keyword":
            pat = f.get("pat", "A")                   # "A", "A_", "_": underscores are what the name-prettifying code looks at
            new = old + (pat * (L // len(pat) + 1))[:L]
        elif cls == "enum":
            pat = f.get("pat", "E")
            new = "." + (pat * (L // len(pat) + 1))[:L] + "."
        elif cls == "string":
            new = "'" + ("a" * L if f.get("fill", "a") == "a" else ("''" * (L // 2))) + "'"
        elif cls == "binary":
            new = '"' + "1" + "F" * L + '"'
        elif cls == "ref":
            new = "#" + "9" * L
        else:
            new = "/*" + "c" * L + "*/"
        return text[:s] + new + text[e:], True, cls
    if kind == "extreme":
        # an instance name, a reference or an integer replaced by a value at the edge of the machine's integer types
        cls = f.get("cls", "ref")
        cands = [t for t in toks if t[2] == cls and (cls != "number" or text[t[0]:t[1]].lstrip("+-").isdigit())]
        if not cands:
            return text, False, "no-" + cls
        if f.get("pair"):
            # two instance NAMES: one gets the extreme value, the next one an id the manager has to replace (0, or the same value again)
            names = [t for n_, t in enumerate(toks) if t[2] == "ref" and n_ + 1 < len(toks) and text[toks[n_ + 1][0]:toks[n_ + 1][1]] == "="]
            if len(names) >= 2:
                k = f["tok"] % (len(names) - 1)
                (s1, e1, _), (s2, e2, _) = names[k], names[k + 1]
                v = "#" + str(f.get("value", "2147483647"))
                second = "#0" if f["pair"] == "zero" else v
                return text[:s1] + v + text[e1:s2] + second + text[e2:], True, "extreme-name-pair"
        s, e, tk = cands[f["tok"] % len(cands)]
        new = ("#" if cls == "ref" else "") + str(f.get("value", "2147483647"))
        return text[:s] + new + text[e:], text[s:e] != new, "extreme-" + cls
    if kind == "paren":
        if not toks:
            return text, False, "no-tokens"
        k = f["tok"] % len(toks)
        ch = f.get("ch", "(")
        if f.get("mode", "ins") == "ins":
            s, e, tk = toks[k]
            return text[:s] + ch + text[s:], True, "ins" + ch + "-before-" + tk
        ps = [t for t in toks if t[2] == "punct" and text[t[0]] == ch]
        if not ps:
            return text, False, "no-paren"
        s, e, tk = ps[f["tok"] % len(ps)]
        return text[:s] + text[e:], True, "del" + ch
    if kind == "nest":
        vals = [t for t in toks if t[2] in ("number", "string", "enum", "ref", "binary")]
        if not vals:
            return text, False, "no-value"
        s, e, tk = vals[f["tok"] % len(vals)]
        d = int(f.get("depth", 10))
        if f.get("unbalanced"):
            return text[:s] + "(" * d + text[s:], True, "open-" + tk
        return text[:s] + "(" * d + text[s:e] + ")" * d + text[e:], True, "wrap-" + tk
    if kind in ("complex-parts", "illegal-complex"):
        recs = _instances(text)
        if not recs:
            return text, False, "no-instance"
        s, e = recs[f["inst"] % len(recs)]
        m = re.match(r"#[0-9]+", text[s:e])
        head = m.group(0) if m else "#1"
        names = f.get("names") or ["A"]
        if kind == "complex-parts":
            parts = "".join("%s()" % names[i % len(names)] for i in range(int(f.get("n", 100))))
        else:
            parts = "".join("%s(%s)" % (nm, f.get("args", "")) for nm in names)
        return text[:s] + head + "=(" + parts + ");" + text[e:], True, kind
    if kind == "garble":
        # a value token replaced by a short string over the Part 21 punctuation alphabet
        vals = [t for t in toks if t[2] in ("number", "string", "enum", "ref", "binary")] or toks
        if not vals:
            return text, False, "no-tokens"
        s, e, tk = vals[f["tok"] % len(vals)]
        return text[:s] + f.get("text", "") + text[e:], text[s:e] != f.get("text", ""), "garble-" + tk
    if kind == "insert":
        at = f["at"] % (n + 1)
        return text[:at] + f.get("text", "") + text[at:], bool(f.get("text")), _region(text, at)
    raise ValueError("unknown fault kind " + kind)


def _region(text, at):
    """coarse description of where a byte offset falls"""
    h = text.find("HEADER;")
    d = text.find("DATA;")
    if at >= len(text):
        return "end"
    if h < 0 or at < h:
        sect = "prolog"
    elif d < 0 or at < d:
        sect = "header"
    else:
        sect = "data"
    cx = ""
    if sect == "data":
        # inside an externally mapped record  #n=( A(..) B(..) ) ?
        for m in re.finditer(r"#[0-9]+\s*=\s*\(", text):
            if m.end() <= at:
                semi = text.find(";", m.end())
                if semi < 0 or at <= semi:
                    cx = "complex:"
            elif m.start() > at:
                break
    for s, e, k in tokens(text):
        if s <= at < e:
            return sect + ":" + cx + k
        if s > at:
            break
    return sect + ":" + cx + "ws"


def apply_all(text, faults):
    fired = {}
    where = []
    for f in faults:
        text, ok, w = apply_fault(text, f)
        if ok:
            fired[f["kind"]] = fired.get(f["kind"], 0) + 1
            where.append("%s@%s" % (f["kind"], w))
    return text, fired, where


def gen_fault(r, kinds=None, schema_names=None):
    """one seeded fault"""
    kinds = kinds or ["truncate", "flip", "nul", "hibit", "tok-del", "tok-dup", "tok-swap", "stretch", "paren", "nest",
                      "complex-parts", "illegal-complex", "garble", "garble", "extreme"]
    k = r.choice(kinds)
    big = r.randint(0, 10 ** 9)
    if k == "extreme":
        cls = r.choice(["ref", "ref", "number"])
        vals = ["0", "2147483647", "2147483648", "4294967295", "4294967296", "9223372036854775807", "9223372036854775808", "18446744073709551616", "99999999999999999999"]
        if cls == "number":
            vals += ["-2147483648", "-2147483649", "-9223372036854775808", "-9223372036854775809"]
        f = {"kind": k, "tok": big, "cls": cls, "value": r.choice(vals)}
        if cls == "ref" and r.random() < 0.4:
            f["pair"] = r.choice(["zero", "same"])
        return f
    if k == "truncate":
        return {"kind": k, "at": big, "bias": "complex"} if r.random() < 0.3 else {"kind": k, "at": big}
    if k == "flip":
        return {"kind": k, "at": big, "mask": r.choice([1, 2, 4, 8, 16, 32, 64, 128, 255])}
    if k in ("nul", "hibit"):
        return {"kind": k, "at": big}
    if k in ("tok-del", "tok-dup", "tok-swap"):
        return {"kind": k, "tok": big}
    if k == "stretch":
        cls = r.choice(STRETCH_CLASSES)
        f = {"kind": k, "tok": big, "cls": cls, "len": r.choice([40, 70, 100, 300, 1000, 9000, 70000, 100000])}
        if cls == "number":
            f["part"] = r.choice(["int", "frac", "exp"])
        if cls == "string":
            f["fill"] = r.choice(["a", "q"])
        if cls in ("keyword", "enum"):
            f["pat"] = r.choice(["A", "A", "A_", "_", "AB_C"])
            f["len"] = r.choice([40, 70, 100, 300, 1000, 8190, 8191, 8192, 8193, 9000, 70000, 100000])   # BUFSIZ is 8192
        return f
    if k == "garble":
        alphabet = "(),;$*#'\".1A-+E\\/ \n"
        return {"kind": k, "tok": big, "text": "".join(r.choice(alphabet) for _ in range(r.choice([1, 1, 2, 2, 3, 4])))}
    if k == "paren":
        return {"kind": k, "tok": big, "ch": r.choice("()"), "mode": r.choice(["ins", "del"])}
    if k == "nest":
        return {"kind": k, "tok": big, "depth": r.choice([2, 10, 100, 1000, 5000]), "unbalanced": r.random() < 0.3}
    names = [n.upper() for n in (schema_names or ["A", "B"])]
    if k == "complex-parts":
        return {"kind": k, "inst": big, "n": r.choice([3, 20, 100, 300]), "names": r.sample(names, min(len(names), r.randint(1, 4)))}
    if k == "illegal-complex":
        return {"kind": k, "inst": big, "names": r.sample(names, min(len(names), r.randint(1, 5))), "args": r.choice(["", "1", "$", "'x',2"])}
    raise ValueError(k)


# ---------------------------------------------------------------------------
# EXPRESS files (C06): the same fault kinds over an EXPRESS-flavoured lenient tokeniser
# ---------------------------------------------------------------------------
_ETOK = re.compile(r"""
    (?P<ws>[ \t\r\n]+)
  | (?P<comment>\(\*.*?\*\))
  | (?P<tail>--[^\n]*)
  | (?P<string>'(?:[^'\n]|'')*')
  | (?P<number>[0-9]+(?:\.[0-9]*)?(?:[eE][+-]?[0-9]+)?)
  | (?P<keyword>[A-Za-z_][A-Za-z0-9_]*)
  | (?P<punct><=|>=|<>|:=|:=:|:<>:|\*\*|\|\||<\*|[()\[\]{};:,.=<>+\-*/\\|?])
  | (?P<other>.)
""", re.X | re.S)


def express_tokens(text):
    out = []
    for m in _ETOK.finditer(text):
        k = m.lastgroup
        if k != "ws":
            out.append((m.start(), m.end(), k))
    return out


def apply_express_fault(text, f):
    kind = f["kind"]
    n = len(text)
    if kind in ("truncate", "flip", "nul", "hibit", "setbyte", "insert"):
        t, ok, w = apply_fault(text, f)
        return t, ok, kind
    toks = express_tokens(text)
    if not toks:
        return text, False, "no-tokens"
    if kind in ("tok-del", "tok-dup", "tok-swap"):
        if len(toks) < 2:
            return text, False, "no-tokens"
        k = f["tok"] % (len(toks) - 1)
        s, e, tk = toks[k]
        if kind == "tok-del":
            return text[:s] + text[e:], True, tk
        if kind == "tok-dup":
            return text[:e] + " " + text[s:e] + text[e:], True, tk
        s2, e2, tk2 = toks[k + 1]
        return text[:s] + text[s2:e2] + text[e:s2] + text[s:e] + text[e2:], text[s:e] != text[s2:e2], tk + "~" + tk2
    if kind == "stretch":
        cls = f.get("cls", "keyword")
        L = int(f.get("len", 10000))
        if cls in ("comment", "tail"):
            s, e, tk = toks[f["tok"] % len(toks)]
            ins = ("(*" + "c" * L + "*)") if cls == "comment" else ("--" + "t" * L + "\n")
            return text[:e] + " " + ins + text[e:], True, cls
        cands = [t for t in toks if t[2] == cls]
        if not cands:
            return text, False, "no-" + cls
        s, e, tk = cands[f["tok"] % len(cands)]
        old = text[s:e]
        if cls == "keyword":
            new = old + "x" * L
        elif cls == "number":
            new = old + "7" * L
        else:
            # what a tool copies, escapes or re-quotes while printing: plain letters, backslashes, doubled apostrophes, percent signs, double quotes
            fill = f.get("fill", "s")
            new = "'" + (fill * (L // len(fill) + 1))[:L // len(fill) * len(fill)] + "'"
        return text[:s] + new + text[e:], True, cls + (":" + {"\\": "backslash", "''": "apostrophe", "%": "percent", '"': "dquote"}.get(f.get("fill", "s"), "") if f.get("fill", "s") != "s" else "")
    if kind == "nest":
        d = int(f.get("depth", 100))
        what = f.get("what", "paren")
        if what == "comment":
            s, e, tk = toks[f["tok"] % len(toks)]
            return text[:e] + " " + "(*" * d + " x " + "*)" * d + " " + text[e:], True, "nested-comment"
        vals = [t for t in toks if t[2] == "number"]
        if not vals:
            return text, False, "no-number"
        s, e, tk = vals[f["tok"] % len(vals)]
        if f.get("unbalanced"):
            return text[:s] + "(" * d + text[s:], True, "open-paren"
        return text[:s] + "(" * d + text[s:e] + ")" * d + text[e:], True, "wrap-paren"
    if kind in ("quote-del", "newline-in-string"):
        strs = [t for t in toks if t[2] == "string"]
        if not strs:
            return text, False, "no-string"
        s, e, tk = strs[f["tok"] % len(strs)]
        if kind == "quote-del":
            if f.get("which") == "open":
                return text[:s] + text[s + 1:], True, "open-quote"
            return text[:e - 1] + text[e:], True, "close-quote"
        mid = s + 1 + (f.get("at", 0) % max(1, e - s - 1))
        return text[:mid] + "\n" + text[mid:], True, "string"
    if kind == "quote-ins":
        s, e, tk = toks[f["tok"] % len(toks)]
        return text[:s] + f.get("ch", "'") + text[s:], True, "before-" + tk
    if kind in ("id-subst", "kw-subst"):
        ids = [t for t in toks if t[2] == "keyword" and (text[t[0]:t[1]].upper() in RESERVED) == (kind == "kw-subst")]
        if len(ids) < 2:
            return text, False, "no-identifiers"
        s, e, tk = ids[f["tok"] % len(ids)]
        s2, e2, tk2 = ids[f["with"] % len(ids)]
        return text[:s] + text[s2:e2] + text[e:], text[s:e] != text[s2:e2], "identifier" if kind == "id-subst" else "reserved-word"
    if kind == "ns-subst":
        # a reference position (after '.', after the group qualifier, before '(' or '[') gets a name from another namespace:
        # a rule label, or the name introduced by TYPE / ENTITY / FUNCTION / PROCEDURE / RULE / SCHEMA
        ids = [(n, t) for n, t in enumerate(toks) if t[2] == "keyword" and text[t[0]:t[1]].upper() not in RESERVED]
        targets, sources = [], []
        for n, t in ids:
            prev = text[toks[n - 1][0]:toks[n - 1][1]] if n else ""
            nxt = text[toks[n + 1][0]:toks[n + 1][1]] if n + 1 < len(toks) else ""
            if prev in (".", "\\") or nxt in ("(", "["):
                targets.append(t)
            if (nxt == ":" and prev in (";", "WHERE", "UNIQUE", "where", "unique")) or prev.upper() in ("TYPE", "ENTITY", "FUNCTION", "PROCEDURE", "RULE", "SCHEMA"):
                sources.append(t)
        if not targets or not sources:
            return text, False, "no-reference-position"
        s, e, tk = targets[f["tok"] % len(targets)]
        s2, e2, tk2 = sources[f["with"] % len(sources)]
        return text[:s] + text[s2:e2] + text[e:], text[s:e] != text[s2:e2], "reference"
    if kind == "garble":
        s, e, tk = toks[f["tok"] % len(toks)]
        return text[:s] + f.get("text", "") + text[e:], text[s:e] != f.get("text", ""), "garble-" + tk
    if kind == "nonascii":
        s, e, tk = toks[f["tok"] % len(toks)]
        return text[:s] + f.get("bytes", "\xe9\xff") + text[s:], True, "before-" + tk
    if kind == "no-final-newline":
        t = text.rstrip("\n")
        return t, t != text, "eof"
    raise ValueError(kind)


RESERVED = set("""ABS ABSTRACT ACOS AGGREGATE ALIAS AND ANDOR ARRAY AS ASIN ATAN BAG BEGIN BINARY BLENGTH BOOLEAN BY CASE CONST_E CONSTANT COS
DERIVE DIV ELSE END END_ALIAS END_CASE END_CONSTANT END_ENTITY END_FUNCTION END_IF END_LOCAL END_PROCEDURE END_REPEAT END_RULE END_SCHEMA
END_TYPE ENTITY ENUMERATION ESCAPE EXISTS EXP FALSE FIXED FOR FORMAT FROM FUNCTION GENERIC HIBOUND HIINDEX IF IN INSERT INTEGER INVERSE LENGTH
LIKE LIST LOBOUND LOCAL LOG LOG10 LOG2 LOGICAL LOINDEX MOD NOT NUMBER NVL ODD OF ONEOF OPTIONAL OR OTHERWISE PI PROCEDURE QUERY REAL REFERENCE
REMOVE REPEAT RETURN ROLESOF RULE SCHEMA SELECT SELF SET SIN SIZEOF SKIP SQRT STRING SUBTYPE SUPERTYPE TAN THEN TO TRUE TYPE TYPEOF UNIQUE
UNKNOWN UNTIL USE USEDIN VALUE VALUE_IN VALUE_UNIQUE VAR WHERE WHILE XOR""".split())


def apply_all_express(text, faults):
    fired = {}
    where = []
    for f in faults:
        text, ok, w = apply_express_fault(text, f)
        if ok:
            fired[f["kind"]] = fired.get(f["kind"], 0) + 1
            where.append("%s@%s" % (f["kind"], w))
    return text, fired, where


def gen_express_fault(r):
    k = r.choice(["truncate", "flip", "nul", "hibit", "tok-del", "tok-del", "tok-dup", "tok-swap", "tok-swap", "stretch", "stretch", "nest", "nonascii", "no-final-newline",
                  "quote-del", "newline-in-string", "quote-ins", "id-subst", "id-subst", "id-subst", "kw-subst", "kw-subst", "garble", "ns-subst", "ns-subst", "ns-subst"])
    big = r.randint(0, 10 ** 9)
    if k == "ns-subst":
        return {"kind": k, "tok": big, "with": r.randint(0, 10 ** 9)}
    if k == "quote-del":
        return {"kind": k, "tok": big, "which": r.choice(["open", "close", "close"])}
    if k == "newline-in-string":
        return {"kind": k, "tok": big, "at": r.randint(0, 10 ** 6)}
    if k == "quote-ins":
        return {"kind": k, "tok": big, "ch": r.choice(["'", "'", '"', "%", "(*", "*)", "--"])}
    if k in ("id-subst", "kw-subst"):
        return {"kind": k, "tok": big, "with": r.randint(0, 10 ** 9)}
    if k == "garble":
        alphabet = "()[]{};:,.=<>+-*/\\|?'\"%_ 1aE\n"
        return {"kind": k, "tok": big, "text": "".join(r.choice(alphabet) for _ in range(r.choice([1, 1, 2, 2, 3, 4])))}
    if k == "truncate":
        return {"kind": k, "at": big}
    if k == "flip":
        return {"kind": k, "at": big, "mask": r.choice([1, 2, 4, 8, 16, 32, 64, 128, 255])}
    if k in ("nul", "hibit"):
        return {"kind": k, "at": big}
    if k in ("tok-del", "tok-dup", "tok-swap"):
        return {"kind": k, "tok": big}
    if k == "stretch":
        f = {"kind": k, "tok": big, "cls": r.choice(["keyword", "number", "string", "string", "comment", "tail"]), "len": r.choice([300, 1000, 10000, 50000, 100000])}
        if f["cls"] == "string":
            f["fill"] = r.choice(["s", "s", "\\", "\\", "''", "%", '"'])
        return f
    if k == "nest":
        return {"kind": k, "tok": big, "what": r.choice(["paren", "comment"]), "depth": r.choice([5, 30, 100, 1000]), "unbalanced": r.random() < 0.3}
    if k == "nonascii":
        return {"kind": k, "tok": big, "bytes": r.choice(["\xe9", "\xff\xfe", "\x80", "\x01", "\x7f"])}
    return {"kind": k}


def pathological_schema(r):
    """synthetic lexical stress: -> (name, text, label)"""
    c = r.choice(["deep-scopes", "deep-if", "deep-if", "deep-expr", "long-remark", "long-string", "long-identifier", "many-entities", "deep-select", "deep-subtype",
                  "use-cycle", "use-cycle", "self-use", "function-as-value", "long-binary", "long-encoded", "wide-expr", "deep-aggregate-type", "deep-index",
                  "deep-query", "many-params", "supertype-expr", "subtype-cycle", "select-cycle", "type-cycle", "long-where-label", "many-enum-items",
                  "rename-clash", "derive-cycle", "kind-confusion", "kind-confusion", "kind-confusion", "same-name-across-schemas", "same-name-across-schemas", "escape-heavy", "escape-heavy", "literal-as-name", "literal-as-name"])
    n = r.choice([21, 30, 100])
    multi = _patho_more(r, c, n)
    if multi is not None:
        return "patho", multi, "%s-%d" % (c, n)
    if c == "deep-scopes":
        body = "".join("FUNCTION f%d : INTEGER;\n" % k for k in range(n)) + "RETURN (1);\n" + "".join("END_FUNCTION;\nRETURN (1);\n" for _ in range(n - 1)) + "END_FUNCTION;\n"
        text = "SCHEMA patho;\n" + body + "END_SCHEMA;\n"
    elif c == "deep-if":
        # statements nested n levels deep, in a function that has parameters and is used (a parameterless one is not printed by
        # every generator): IF, the ELSE IF chain (EXPRESS has no ELSIF: every link nests), REPEAT, CASE, BEGIN..END and mixtures
        how = r.choice(["if", "else-if", "repeat", "case", "begin", "mixed", "plain"])
        if how == "plain":
            body = "IF TRUE THEN\n" * n + "RETURN (1);\n" + "END_IF;\n" * n
        else:
            opn = {"if": ["IF a > 1 THEN\n"], "else-if": ["IF a > 1 THEN\nRETURN (2);\nELSE\n"], "repeat": ["REPEAT i%d := 1 TO a;\n"],
                   "case": ["CASE a OF\n1 : RETURN (3);\nOTHERWISE :\n"], "begin": ["BEGIN\n"]}
            cls = {"if": "END_IF;\n", "else-if": "END_IF;\n", "repeat": "END_REPEAT;\n", "case": "END_CASE;\n", "begin": "END;\n"}
            kinds = [how] * n if how != "mixed" else [r.choice(["if", "else-if", "repeat", "case", "begin"]) for _ in range(n)]
            body = "".join((opn[k][0] % d) if "%d" in opn[k][0] else opn[k][0] for d, k in enumerate(kinds)) + "RETURN (1);\n" + "".join(cls[k] for k in reversed(kinds))
        if how == "plain":
            text = "SCHEMA patho;\nFUNCTION f : INTEGER;\n" + body + "RETURN (0);\nEND_FUNCTION;\nEND_SCHEMA;\n"
        else:
            text = ("SCHEMA patho;\nFUNCTION f (a : INTEGER) : INTEGER;\n" + body + "RETURN (0);\nEND_FUNCTION;\n"
                    "ENTITY e;\n x : INTEGER;\nWHERE\n w : f(x) > 0;\nEND_ENTITY;\nEND_SCHEMA;\n")
    elif c == "deep-expr":
        text = "SCHEMA patho;\nCONSTANT c : INTEGER := " + "(" * n + "1" + ")" * n + ";\nEND_CONSTANT;\nEND_SCHEMA;\n"
    elif c == "long-remark":
        L = r.choice([300, 10000, 100000])
        text = "SCHEMA patho;\n(*" + "r" * L + "*)\nENTITY e; a : INTEGER; -- " + "t" * L + "\nEND_ENTITY;\nEND_SCHEMA;\n"
    elif c == "long-string":
        L = r.choice([300, 10000, 100000])
        text = "SCHEMA patho;\nCONSTANT c : STRING := '" + "s" * L + "';\nEND_CONSTANT;\nEND_SCHEMA;\n"
    elif c == "long-identifier":
        L = r.choice([300, 10000, 100000])
        idn = "e" + "x" * L
        text = "SCHEMA patho;\nENTITY %s; a : INTEGER;\nEND_ENTITY;\nTYPE t%s = INTEGER; END_TYPE;\nEND_SCHEMA;\n" % (idn, "y" * L)
    elif c == "many-entities":
        text = "SCHEMA patho;\n" + "".join("ENTITY e%d; a%d : INTEGER;\nEND_ENTITY;\n" % (k, k) for k in range(n * 10)) + "END_SCHEMA;\n"
    elif c == "deep-select":
        text = "SCHEMA patho;\nTYPE s0 = SELECT (e); END_TYPE;\n" + "".join("TYPE s%d = SELECT (s%d); END_TYPE;\n" % (k + 1, k) for k in range(n)) + "ENTITY e; a : s%d;\nEND_ENTITY;\nEND_SCHEMA;\n" % n
    else:
        text = "SCHEMA patho;\nENTITY e0; a : INTEGER;\nEND_ENTITY;\n" + "".join("ENTITY e%d SUBTYPE OF (e%d); b%d : INTEGER;\nEND_ENTITY;\n" % (k + 1, k, k) for k in range(n)) + "END_SCHEMA;\n"
    return "patho", text, "%s-%d" % (c, n)


def _patho_more(r, c, n):
    """second batch of synthetic shapes: reference structure (cycles, renames, kind confusion) and long/wide/deep expressions"""
    if c == "use-cycle":
        kw1, kw2 = r.choice([("USE", "USE"), ("REFERENCE", "REFERENCE"), ("USE", "REFERENCE")])
        extra = r.choice(["", "%s FROM a (nosuch);\n" % kw1, "%s FROM a (e AS f);\n" % kw1, "%s FROM b (nosuch AS other);\n" % kw2])
        return ("SCHEMA a;\n%s FROM b;\nENTITY e; x : INTEGER;\nEND_ENTITY;\nEND_SCHEMA;\n"
                "SCHEMA b;\n%s FROM a;\n%sENTITY g; y : INTEGER;\nEND_ENTITY;\nEND_SCHEMA;\n" % (kw1, kw2, extra))
    if c == "self-use":
        kw = r.choice(["USE", "REFERENCE"])
        return "SCHEMA patho;\n%s FROM patho%s;\nENTITY e; x : INTEGER;\nEND_ENTITY;\nEND_SCHEMA;\n" % (kw, r.choice(["", " (e)", " (e AS f)", " (nosuch)"]))
    if c == "function-as-value":
        use = r.choice(["y : INTEGER := f;", "y : INTEGER := f + 1;", "y : INTEGER := e;", "y : INTEGER := t;", "y : INTEGER := p;", "y : INTEGER := f.x;", "y : INTEGER := f[1];",
                        "y : INTEGER := patho;", "y : INTEGER := f(1)(2);", "y : INTEGER := f();", "y : INTEGER := f(1, 2, 3);", "y : INTEGER := e(1);", "y : INTEGER := SIZEOF;"])
        return ("SCHEMA patho;\nTYPE t = INTEGER; END_TYPE;\nFUNCTION f (a : INTEGER) : INTEGER;\nRETURN (a);\nEND_FUNCTION;\nPROCEDURE p (a : INTEGER);\nEND_PROCEDURE;\n"
                "ENTITY e; x : INTEGER;\nDERIVE\n %s\nEND_ENTITY;\nEND_SCHEMA;\n" % use)
    if c == "kind-confusion":
        # a name of one namespace (rule label, type, enumeration item, function, schema, constant, entity) used where another kind is
        # expected: after a dot, as a group qualifier, as a supertype, as an attribute type, as a call, as an index base
        name = r.choice(["wr1", "u1", "t", "en", "red", "f", "p", "patho", "c", "e", "d", "rr", "x"])
        use = r.choice(["wr2 : SELF.%s > 0;", "wr2 : SELF\\%s.x > 0;", "wr2 : SELF\\e.%s > 0;", "wr2 : %s.x > 0;", "wr2 : %s[1] > 0;", "wr2 : %s(1) > 0;",
                        "wr2 : SIZEOF(QUERY(i <* [SELF] | i.%s = 1)) = 0;", "wr2 : '%s' IN TYPEOF(SELF.%s);", "wr2 : %s IN [1];", "wr2 : x IN %s;",
                        "wr2 : {1 <= %s <= 2};", "wr2 : %s LIKE 'a';", "wr2 : -%s = 1;", "wr2 : NOT %s;", "wr2 : %s || 'a' = 'b';", "wr2 : SELF.%s + 1 > 0;", "wr2 : SELF.%s * x > 0;", "wr2 : SELF.%s.x > 0;",
                        "wr2 : SELF.%s[1] > 0;", "wr2 : SIZEOF(SELF.%s) > 0;", "wr2 : f(SELF.%s) > 0;", "wr2 : (SELF.%s = 1) AND (x > 0);"])
        use = use.replace("%s", name)
        decl = r.choice(["", "ENTITY e2 SUBTYPE OF (%s);\nEND_ENTITY;\n" % name, "ENTITY e3;\n a : %s;\nEND_ENTITY;\n" % name,
                         "ENTITY e4;\n a : INTEGER;\nINVERSE\n i : e FOR %s;\nEND_ENTITY;\n" % name, "TYPE t2 = SELECT (%s);\nEND_TYPE;\n" % name,
                         "ENTITY e5;\n a : INTEGER;\nUNIQUE\n u : %s;\nEND_ENTITY;\n" % name, "FUNCTION g (a : %s) : %s;\nRETURN (a);\nEND_FUNCTION;\n" % (name, name)])
        return ("SCHEMA patho;\nCONSTANT\n c : INTEGER := 1;\nEND_CONSTANT;\nTYPE t = INTEGER;\nWHERE\n tw : SELF > 0;\nEND_TYPE;\nTYPE en = ENUMERATION OF (red, green);\nEND_TYPE;\n"
                "FUNCTION f (a : INTEGER) : INTEGER;\nRETURN (a);\nEND_FUNCTION;\nPROCEDURE p (a : INTEGER);\nEND_PROCEDURE;\n"
                "ENTITY e;\n x : INTEGER;\nDERIVE\n d : INTEGER := x + 1;\nUNIQUE\n u1 : x;\nWHERE\n wr1 : x > 0;\n %s\nEND_ENTITY;\n%s"
                "RULE rr FOR (e);\nWHERE\n rw : SIZEOF(e) >= 0;\nEND_RULE;\nEND_SCHEMA;\n" % (use, decl))
    if c == "same-name-across-schemas":
        # two schemas of one file declaring entities (types, functions) of the same name, with sub/supertype structure around them
        sup_a = r.choice(["", " SUPERTYPE OF (x)", " ABSTRACT SUPERTYPE OF (ONEOF (x))"])
        x_a = r.choice([" SUPERTYPE OF (leaf) SUBTYPE OF (top)", " SUBTYPE OF (top)", " SUPERTYPE OF (leaf)"])
        x_b = r.choice([" SUPERTYPE OF (leaf)", "", " ABSTRACT SUPERTYPE OF (ONEOF (leaf, other))", " SUPERTYPE OF (leaf ANDOR other)"])
        link = r.choice(["", "USE FROM a (top);\n", "REFERENCE FROM a (x AS ax);\n", "USE FROM a;\n"])
        return ("SCHEMA a;\nENTITY top%s;\nEND_ENTITY;\nENTITY x%s;\n n : INTEGER;\nEND_ENTITY;\nENTITY leaf SUBTYPE OF (x);\nEND_ENTITY;\n"
                "TYPE t = INTEGER;\nEND_TYPE;\nFUNCTION f (a : t) : t;\nRETURN (a);\nEND_FUNCTION;\nEND_SCHEMA;\n"
                "SCHEMA b;\n%sENTITY x%s;\n m : REAL;\nEND_ENTITY;\nENTITY leaf SUBTYPE OF (x);\nEND_ENTITY;\nENTITY other SUBTYPE OF (x);\nEND_ENTITY;\n"
                "TYPE t = REAL;\nEND_TYPE;\nFUNCTION f (a : t) : t;\nRETURN (a);\nEND_FUNCTION;\nEND_SCHEMA;\n" % (sup_a, x_a, link, x_b))
    if c == "literal-as-name":
        # `?` and SELF are `identifier`s for the grammar: everywhere a NAME is declared they have to be refused, not used
        nm = r.choice(["?", "?", "SELF"])
        form = r.choice(["CONSTANT\n %s : INTEGER := 1;\nEND_CONSTANT;\n", "ENTITY e;\n %s : INTEGER;\nEND_ENTITY;\n", "ENTITY %s;\n x : INTEGER;\nEND_ENTITY;\n",
                         "TYPE %s = INTEGER;\nEND_TYPE;\n", "TYPE t = ENUMERATION OF (a, %s);\nEND_TYPE;\n", "FUNCTION %s (a : INTEGER) : INTEGER;\nRETURN (a);\nEND_FUNCTION;\n",
                         "FUNCTION f (%s : INTEGER) : INTEGER;\nRETURN (1);\nEND_FUNCTION;\n", "FUNCTION f (a : INTEGER) : INTEGER;\nLOCAL\n %s : INTEGER;\nEND_LOCAL;\nRETURN (a);\nEND_FUNCTION;\n",
                         "ENTITY e;\n x : INTEGER;\nDERIVE\n %s : INTEGER := x;\nEND_ENTITY;\n", "ENTITY e;\n x : INTEGER;\nWHERE\n %s : x > 0;\nEND_ENTITY;\n",
                         "ENTITY e;\n x : INTEGER;\nUNIQUE\n %s : x;\nEND_ENTITY;\n", "ENTITY e;\n x : e;\nINVERSE\n %s : e FOR x;\nEND_ENTITY;\n",
                         "RULE %s FOR (e);\nWHERE\n w : TRUE;\nEND_RULE;\nENTITY e;\nEND_ENTITY;\n", "PROCEDURE %s;\nEND_PROCEDURE;\n",
                         "FUNCTION f (a : LIST OF INTEGER) : INTEGER;\nREPEAT %s := 1 TO 2;\nEND_REPEAT;\nRETURN (SIZEOF(QUERY(%s <* a | TRUE)));\nEND_FUNCTION;\n",
                         "FUNCTION f (a : LIST OF INTEGER) : INTEGER;\nALIAS %s FOR a;\nEND_ALIAS;\nRETURN (1);\nEND_FUNCTION;\n", "USE FROM other (%s);\n", "REFERENCE FROM other (x AS %s);\n",
                         # ... and where a name is REFERRED to
                         "ENTITY e ABSTRACT SUPERTYPE OF (%s);\nEND_ENTITY;\n", "ENTITY e SUPERTYPE OF (ONEOF (%s, e2));\nEND_ENTITY;\nENTITY e2 SUBTYPE OF (e);\nEND_ENTITY;\n",
                         "ENTITY e SUBTYPE OF (%s);\nEND_ENTITY;\n", "ENTITY e;\n a : %s;\nEND_ENTITY;\n", "ENTITY e;\n a : LIST OF %s;\nEND_ENTITY;\n",
                         "TYPE t = SELECT (%s);\nEND_TYPE;\n", "TYPE t = %s;\nEND_TYPE;\n", "USE FROM %s;\n", "REFERENCE FROM %s (x);\n", "USE FROM other (%s AS y);\n",
                         "ENTITY e;\n x : e;\nINVERSE\n i : %s FOR x;\nEND_ENTITY;\n", "ENTITY e;\n x : e;\nINVERSE\n i : e FOR %s;\nEND_ENTITY;\n",
                         "ENTITY e;\n x : INTEGER;\nUNIQUE\n u : %s;\nEND_ENTITY;\n", "ENTITY e;\n x : INTEGER;\nEND_ENTITY;\nENTITY e2 SUBTYPE OF (e);\nDERIVE\n SELF\\%s.x : INTEGER := 1;\nEND_ENTITY;\n",
                         "ENTITY e;\n x : INTEGER;\nEND_ENTITY;\nENTITY e2 SUBTYPE OF (e);\nDERIVE\n SELF\\e.%s : INTEGER := 1;\nEND_ENTITY;\n",
                         "RULE r FOR (%s);\nWHERE\n w : TRUE;\nEND_RULE;\n", "FUNCTION f (a : INTEGER) : INTEGER;\nRETURN (%s(a));\nEND_FUNCTION;\n",
                         "FUNCTION f (a : INTEGER) : INTEGER;\n%s(a);\nRETURN (1);\nEND_FUNCTION;\n", "FUNCTION f (a : e) : INTEGER;\nRETURN (a.%s);\nEND_FUNCTION;\nENTITY e;\n x : INTEGER;\nEND_ENTITY;\n",
                         "FUNCTION f (a : e) : INTEGER;\nRETURN (a\\%s.x);\nEND_FUNCTION;\nENTITY e;\n x : INTEGER;\nEND_ENTITY;\n"])
        head = "SCHEMA %s;\n" % (nm if r.random() < 0.1 else "patho")
        return head + form.replace("%s", nm) + "END_SCHEMA;\n" + ("SCHEMA other;\nENTITY x;\nEND_ENTITY;\nEND_SCHEMA;\n" if "other" in form else "")
    if c == "escape-heavy":
        # string literals full of characters that a printer has to escape or double, wherever a tool re-prints an expression:
        # DERIVE initializers, WHERE rules, constants, CASE labels, default values of locals
        L = r.choice([300, 9000, 9000, 100000])
        fill = r.choice(["\\", "\\", "''", "%", '"', "\\n", "%s", "a\\"])
        lit = "'" + (fill * (L // len(fill))) + "'"
        where = r.choice(["derive", "derive", "where", "constant", "local", "case"])
        body = {"derive": "ENTITY e;\n n : STRING;\nDERIVE\n d : STRING := %s;\nEND_ENTITY;\n",
                "where": "ENTITY e;\n n : STRING;\nWHERE\n w : n <> %s;\nEND_ENTITY;\n",
                "constant": "CONSTANT\n c : STRING := %s;\nEND_CONSTANT;\nENTITY e;\n n : STRING;\nEND_ENTITY;\n",
                "local": "FUNCTION f (a : STRING) : STRING;\nLOCAL\n v : STRING := %s;\nEND_LOCAL;\nRETURN (v);\nEND_FUNCTION;\n",
                "case": "FUNCTION f (a : STRING) : INTEGER;\nCASE a OF\n %s : RETURN (1);\n OTHERWISE : RETURN (0);\nEND_CASE;\nEND_FUNCTION;\n"}[where]
        return "SCHEMA patho;\n" + body.replace("%s", lit, 1) + "END_SCHEMA;\n"
    if c == "long-binary":
        L = r.choice([300, 10000, 100000])
        return "SCHEMA patho;\nCONSTANT c : BINARY := %" + "".join(r.choice("01") for _ in range(L)) + ";\nEND_CONSTANT;\nEND_SCHEMA;\n"
    if c == "long-encoded":
        L = r.choice([304, 10000, 100000]) // 8 * 8
        return "SCHEMA patho;\nCONSTANT c : STRING := \"" + "0000004A" * (L // 8) + "\";\nEND_CONSTANT;\nEND_SCHEMA;\n"
    if c == "wide-expr":
        m = r.choice([100, 1000, 10000, 60000])
        op = r.choice([" + ", " * ", " AND ", " || "])
        term = "'s'" if op == " || " else ("TRUE" if op == " AND " else "1")
        ty = "STRING" if op == " || " else ("BOOLEAN" if op == " AND " else "INTEGER")
        return "SCHEMA patho;\nCONSTANT c : %s := %s;\nEND_CONSTANT;\nEND_SCHEMA;\n" % (ty, op.join([term] * m))
    if c == "deep-aggregate-type":
        return "SCHEMA patho;\nENTITY e; a : " + "LIST [0:?] OF " * n + "INTEGER;\nEND_ENTITY;\nTYPE t = " + "SET OF " * n + "REAL; END_TYPE;\nEND_SCHEMA;\n"
    if c == "deep-index":
        return ("SCHEMA patho;\nENTITY e; a : LIST OF LIST OF INTEGER; nxt : e;\nDERIVE\n d : INTEGER := a" + "[1]" * n + ";\n g : INTEGER := SELF" + ".nxt" * n + ".a[1][1];\nEND_ENTITY;\nEND_SCHEMA;\n")
    if c == "deep-query":
        q = "a"
        for k in range(min(n, 30)):
            q = "QUERY(v%d <* %s | TRUE)" % (k, q)
        return "SCHEMA patho;\nENTITY e; a : LIST OF INTEGER;\nWHERE\n w : SIZEOF(%s) >= 0;\nEND_ENTITY;\nEND_SCHEMA;\n" % q
    if c == "many-params":
        m = n * 10
        return ("SCHEMA patho;\nFUNCTION f (" + "; ".join("p%d : INTEGER" % k for k in range(m)) + ") : INTEGER;\nRETURN (p0);\nEND_FUNCTION;\n"
                "CONSTANT c : INTEGER := f(" + ", ".join(["1"] * m) + ");\nEND_CONSTANT;\nEND_SCHEMA;\n")
    if c == "supertype-expr":
        subs = ["s%d" % k for k in range(n)]
        expr = subs[0]
        for k, x in enumerate(subs[1:]):
            expr = "(%s %s %s)" % (expr, r.choice(["AND", "ANDOR"]), x) if k % 3 else "ONEOF (%s, %s)" % (expr, x)
        return ("SCHEMA patho;\nENTITY top SUPERTYPE OF (%s);\n a : INTEGER;\nEND_ENTITY;\n" % expr
                + "".join("ENTITY %s SUBTYPE OF (top);\nEND_ENTITY;\n" % x for x in subs) + "END_SCHEMA;\n")
    if c == "subtype-cycle":
        m = r.choice([1, 2, 3])
        cyc = "".join("ENTITY e%d SUBTYPE OF (e%d);\n a%d : INTEGER;\nEND_ENTITY;\n" % (k, (k + 1) % m, k) for k in range(m))
        # a user of the cycle: inherited / missing attributes looked up through it in every clause that can name one
        use = r.choice(["", "", "x : INTEGER;", "x : INTEGER;\nDERIVE\n d : INTEGER := a0 + nosuch;", "DERIVE\n SELF\\e0.a0 : INTEGER := 1;",
                        "x : INTEGER;\nUNIQUE\n u : a0, x;", "x : INTEGER;\nWHERE\n w : SELF\\e0.nosuch > x;", "r : e0;\nWHERE\n w : r.nosuch = r.a0;",
                        "INVERSE\n i : SET OF holder FOR h;"])
        sup = r.choice(["", " SUPERTYPE OF (ONEOF (e0, user))"])
        extra = "ENTITY holder%s;\n h : e0;\nEND_ENTITY;\n" % sup if r.random() < 0.7 else ""
        return "SCHEMA patho;\n" + cyc + "ENTITY user SUBTYPE OF (e0);\n %s\nEND_ENTITY;\n" % use + extra + "END_SCHEMA;\n"
    if c == "select-cycle":
        m = r.choice([1, 2, 3])
        other = r.choice(["", ", e", ", l", ", INTEGER"]).replace(", INTEGER", ", n")
        cyc = "".join("TYPE s%d = SELECT (s%d%s); END_TYPE;\n" % (k, (k + 1) % m, other if k == 0 else "") for k in range(m))
        use = r.choice(["", "WHERE\n w : SIZEOF(QUERY(q <* a | TRUE)) = 0;", "WHERE\n w : a[1] = 1;", "WHERE\n w : 'PATHO.E' IN TYPEOF(a);", "WHERE\n w : a.b = 1;",
                        "DERIVE\n d : INTEGER := SIZEOF(a);", "WHERE\n w : a = a;", "DERIVE\n d : s0 := a;", "WHERE\n w : a\\e.b = 1;"])
        return ("SCHEMA patho;\nTYPE n = INTEGER; END_TYPE;\nTYPE l = LIST OF INTEGER; END_TYPE;\n" + cyc + "ENTITY e; a : s0; b : INTEGER; c : LIST OF s1;\n%s\nEND_ENTITY;\nEND_SCHEMA;\n" % use)
    if c == "type-cycle":
        m = r.choice([1, 2, 3])
        agg = r.choice(["", "LIST OF ", "ARRAY [1:2] OF "])
        return ("SCHEMA patho;\n" + "".join("TYPE t%d = %st%d; END_TYPE;\n" % (k, agg, (k + 1) % m) for k in range(m)) + "ENTITY e; a : t0;\nEND_ENTITY;\nEND_SCHEMA;\n")
    if c == "long-where-label":
        L = r.choice([300, 10000])
        return "SCHEMA patho;\nENTITY e; a : INTEGER;\nWHERE\n w%s : a > 0;\nEND_ENTITY;\nTYPE t = INTEGER;\nWHERE\n v%s : SELF > 0;\nEND_TYPE;\nEND_SCHEMA;\n" % ("x" * L, "y" * L)
    if c == "many-enum-items":
        m = n * 30
        return "SCHEMA patho;\nTYPE en = ENUMERATION OF (" + ", ".join("item%d" % k for k in range(m)) + "); END_TYPE;\nENTITY e; a : en;\nEND_ENTITY;\nEND_SCHEMA;\n"
    if c == "rename-clash":
        return ("SCHEMA a;\nUSE FROM b (e AS g, h AS e, t AS u);\nENTITY %s; x : u;\nEND_ENTITY;\nEND_SCHEMA;\n"
                "SCHEMA b;\nTYPE t = INTEGER; END_TYPE;\nENTITY e; y : t;\nEND_ENTITY;\nENTITY h; z : e;\nEND_ENTITY;\nEND_SCHEMA;\n" % r.choice(["e", "g", "k", "u"]))
    if c == "derive-cycle":
        return ("SCHEMA patho;\nCONSTANT c1 : INTEGER := c2; c2 : INTEGER := c1;\nEND_CONSTANT;\nFUNCTION f (a : INTEGER) : INTEGER;\nRETURN (f(a));\nEND_FUNCTION;\n"
                "ENTITY e;\nDERIVE\n d1 : INTEGER := d2;\n d2 : INTEGER := d1 + c1;\nEND_ENTITY;\nEND_SCHEMA;\n")
    return None
