"""The simulated disk's fault layer: damages stored bytes between the moment a file is
written (by the generator or by stepcode itself) and the moment stepcode reads it.

Faults are plan items attached to the read they hit; positions are taken modulo what
exists in the file at that moment (byte count, token count, tokens of a class), so that
removing earlier ops or instances never invalidates a fault - this is what lets the
minimiser drop and simplify them independently.  Files travel as latin-1 strings.
"""
import re

_LTOK = re.compile(r"""
    (?P<ws>[ \t\r\n]+)
  | (?P<comment>/\*.*?\*/)
  | (?P<ref>\#[0-9]+)
  | (?P<number>[+-]?[0-9]+(?:\.[0-9]*)?(?:E[+-]?[0-9]+)?)
  | (?P<string>'(?:[^']|'')*')
  | (?P<binary>"[0-9A-F]*")
  | (?P<enum>\.[A-Za-z_][A-Za-z0-9_]*\.)
  | (?P<keyword>!?[A-Za-z_][A-Za-z0-9_\-]*)
  | (?P<punct>[()=,;$*])
  | (?P<other>.)
""", re.X | re.S)


def tokens(text):
    """lenient tokeniser: never fails; -> [(start, end, kind)] without white space"""
    out = []
    for m in _LTOK.finditer(text):
        k = m.lastgroup
        if k != "ws":
            out.append((m.start(), m.end(), k))
    return out


def _instances(text):
    """[(start, end)] of data-section records '#n=...;' found leniently"""
    out = []
    d = text.find("DATA;")
    if d < 0:
        return out
    for m in re.finditer(r"#[0-9]+\s*=[^;]*;", text[d:], re.S):
        out.append((d + m.start(), d + m.end()))
    return out


STRETCH_CLASSES = ("number", "keyword", "enum", "string", "binary", "comment", "ref")


def apply_fault(text, f):
    """-> (new text, fired: bool, where: short description of the token class / region hit)"""
    kind = f["kind"]
    n = len(text)
    if kind == "truncate":
        at = f["at"] % (n + 1)
        return text[:at], at < n, _region(text, at)
    if kind in ("flip", "nul", "hibit", "setbyte"):
        if n == 0:
            return text, False, "empty"
        at = f["at"] % n
        c = ord(text[at])
        if kind == "flip":
            nc = c ^ (f.get("mask", 1) & 0xFF or 1)
        elif kind == "nul":
            nc = 0
        elif kind == "hibit":
            nc = c | 0x80
        else:
            nc = f.get("byte", 0) & 0xFF
        return text[:at] + chr(nc) + text[at + 1:], nc != c, _region(text, at)
    toks = tokens(text)
    if kind in ("tok-del", "tok-dup", "tok-swap"):
        if len(toks) < 2:
            return text, False, "no-tokens"
        k = f["tok"] % (len(toks) - 1)
        s, e, tk = toks[k]
        if kind == "tok-del":
            return text[:s] + text[e:], True, tk
        if kind == "tok-dup":
            return text[:e] + text[s:e] + text[e:], True, tk
        s2, e2, tk2 = toks[k + 1]
        return text[:s] + text[s2:e2] + text[e:s2] + text[s:e] + text[e2:], text[s:e] != text[s2:e2], tk + "~" + tk2
    if kind == "stretch":
        cls = f.get("cls", "number")
        L = int(f.get("len", 1000))
        cands = [t for t in toks if t[2] == cls]
        if not cands:
            if cls == "comment" and toks:
                s, e, tk = toks[f["tok"] % len(toks)]
                return text[:e] + "/*" + "c" * L + "*/" + text[e:], True, "comment-after-" + tk
            return text, False, "no-" + cls
        s, e, tk = cands[f["tok"] % len(cands)]
        old = text[s:e]
        if cls == "number":
            if "." in old and f.get("part") == "frac":
                new = old.split(".")[0] + "." + "7" * L
            elif "E" in old and f.get("part") == "exp":
                new = old.split("E")[0] + "E" + "9" * L
            else:
                new = old[:1] + "1" * L + old[1:]
        elif cls == "keyword":
            new = old + "A" * L
        elif cls == "enum":
            new = "." + "E" * L + "."
        elif cls == "string":
            new = "'" + ("a" * L if f.get("fill", "a") == "a" else ("''" * (L // 2))) + "'"
        elif cls == "binary":
            new = '"' + "1" + "F" * L + '"'
        elif cls == "ref":
            new = "#" + "9" * L
        else:
            new = "/*" + "c" * L + "*/"
        return text[:s] + new + text[e:], True, cls
    if kind == "paren":
        if not toks:
            return text, False, "no-tokens"
        k = f["tok"] % len(toks)
        ch = f.get("ch", "(")
        if f.get("mode", "ins") == "ins":
            s, e, tk = toks[k]
            return text[:s] + ch + text[s:], True, "ins" + ch + "-before-" + tk
        ps = [t for t in toks if t[2] == "punct" and text[t[0]] == ch]
        if not ps:
            return text, False, "no-paren"
        s, e, tk = ps[f["tok"] % len(ps)]
        return text[:s] + text[e:], True, "del" + ch
    if kind == "nest":
        vals = [t for t in toks if t[2] in ("number", "string", "enum", "ref", "binary")]
        if not vals:
            return text, False, "no-value"
        s, e, tk = vals[f["tok"] % len(vals)]
        d = int(f.get("depth", 10))
        if f.get("unbalanced"):
            return text[:s] + "(" * d + text[s:], True, "open-" + tk
        return text[:s] + "(" * d + text[s:e] + ")" * d + text[e:], True, "wrap-" + tk
    if kind in ("complex-parts", "illegal-complex"):
        recs = _instances(text)
        if not recs:
            return text, False, "no-instance"
        s, e = recs[f["inst"] % len(recs)]
        m = re.match(r"#[0-9]+", text[s:e])
        head = m.group(0) if m else "#1"
        names = f.get("names") or ["A"]
        if kind == "complex-parts":
            parts = "".join("%s()" % names[i % len(names)] for i in range(int(f.get("n", 100))))
        else:
            parts = "".join("%s(%s)" % (nm, f.get("args", "")) for nm in names)
        return text[:s] + head + "=(" + parts + ");" + text[e:], True, kind
    if kind == "garble":
        # a value token replaced by a short string over the Part 21 punctuation alphabet
        vals = [t for t in toks if t[2] in ("number", "string", "enum", "ref", "binary")] or toks
        if not vals:
            return text, False, "no-tokens"
        s, e, tk = vals[f["tok"] % len(vals)]
        return text[:s] + f.get("text", "") + text[e:], text[s:e] != f.get("text", ""), "garble-" + tk
    if kind == "insert":
        at = f["at"] % (n + 1)
        return text[:at] + f.get("text", "") + text[at:], bool(f.get("text")), _region(text, at)
    raise ValueError("unknown fault kind " + kind)


def _region(text, at):
    """coarse description of where a byte offset falls"""
    h = text.find("HEADER;")
    d = text.find("DATA;")
    if at >= len(text):
        return "end"
    if h < 0 or at < h:
        sect = "prolog"
    elif d < 0 or at < d:
        sect = "header"
    else:
        sect = "data"
    for s, e, k in tokens(text):
        if s <= at < e:
            return sect + ":" + k
        if s > at:
            break
    return sect + ":ws"


def apply_all(text, faults):
    fired = {}
    where = []
    for f in faults:
        text, ok, w = apply_fault(text, f)
        if ok:
            fired[f["kind"]] = fired.get(f["kind"], 0) + 1
            where.append("%s@%s" % (f["kind"], w))
    return text, fired, where


def gen_fault(r, kinds=None, schema_names=None):
    """one seeded fault"""
    kinds = kinds or ["truncate", "flip", "nul", "hibit", "tok-del", "tok-dup", "tok-swap", "stretch", "paren", "nest",
                      "complex-parts", "illegal-complex", "garble", "garble"]
    k = r.choice(kinds)
    big = r.randint(0, 10 ** 9)
    if k == "truncate":
        return {"kind": k, "at": big}
    if k == "flip":
        return {"kind": k, "at": big, "mask": r.choice([1, 2, 4, 8, 16, 32, 64, 128, 255])}
    if k in ("nul", "hibit"):
        return {"kind": k, "at": big}
    if k in ("tok-del", "tok-dup", "tok-swap"):
        return {"kind": k, "tok": big}
    if k == "stretch":
        cls = r.choice(STRETCH_CLASSES)
        f = {"kind": k, "tok": big, "cls": cls, "len": r.choice([40, 70, 100, 300, 1000, 9000, 70000, 100000])}
        if cls == "number":
            f["part"] = r.choice(["int", "frac", "exp"])
        if cls == "string":
            f["fill"] = r.choice(["a", "q"])
        return f
    if k == "garble":
        alphabet = "(),;$*#'\".1A-+E\\/ \n"
        return {"kind": k, "tok": big, "text": "".join(r.choice(alphabet) for _ in range(r.choice([1, 1, 2, 2, 3, 4])))}
    if k == "paren":
        return {"kind": k, "tok": big, "ch": r.choice("()"), "mode": r.choice(["ins", "del"])}
    if k == "nest":
        return {"kind": k, "tok": big, "depth": r.choice([2, 10, 100, 1000, 5000]), "unbalanced": r.random() < 0.3}
    names = [n.upper() for n in (schema_names or ["A", "B"])]
    if k == "complex-parts":
        return {"kind": k, "inst": big, "n": r.choice([3, 20, 100, 300]), "names": r.sample(names, min(len(names), r.randint(1, 4)))}
    if k == "illegal-complex":
        return {"kind": k, "inst": big, "names": r.sample(names, min(len(names), r.randint(1, 5))), "args": r.choice(["", "1", "$", "'x',2"])}
    raise ValueError(k)


# ---------------------------------------------------------------------------
# EXPRESS files (C06): the same fault kinds over an EXPRESS-flavoured lenient tokeniser
# ---------------------------------------------------------------------------
_ETOK = re.compile(r"""
    (?P<ws>[ \t\r\n]+)
  | (?P<comment>\(\*.*?\*\))
  | (?P<tail>--[^\n]*)
  | (?P<string>'(?:[^'\n]|'')*')
  | (?P<number>[0-9]+(?:\.[0-9]*)?(?:[eE][+-]?[0-9]+)?)
  | (?P<keyword>[A-Za-z_][A-Za-z0-9_]*)
  | (?P<punct><=|>=|<>|:=|:=:|:<>:|\*\*|\|\||<\*|[()\[\]{};:,.=<>+\-*/\\|?])
  | (?P<other>.)
""", re.X | re.S)


def express_tokens(text):
    out = []
    for m in _ETOK.finditer(text):
        k = m.lastgroup
        if k != "ws":
            out.append((m.start(), m.end(), k))
    return out


def apply_express_fault(text, f):
    kind = f["kind"]
    n = len(text)
    if kind in ("truncate", "flip", "nul", "hibit", "setbyte", "insert"):
        t, ok, w = apply_fault(text, f)
        return t, ok, kind
    toks = express_tokens(text)
    if not toks:
        return text, False, "no-tokens"
    if kind in ("tok-del", "tok-dup", "tok-swap"):
        if len(toks) < 2:
            return text, False, "no-tokens"
        k = f["tok"] % (len(toks) - 1)
        s, e, tk = toks[k]
        if kind == "tok-del":
            return text[:s] + text[e:], True, tk
        if kind == "tok-dup":
            return text[:e] + " " + text[s:e] + text[e:], True, tk
        s2, e2, tk2 = toks[k + 1]
        return text[:s] + text[s2:e2] + text[e:s2] + text[s:e] + text[e2:], text[s:e] != text[s2:e2], tk + "~" + tk2
    if kind == "stretch":
        cls = f.get("cls", "keyword")
        L = int(f.get("len", 10000))
        if cls in ("comment", "tail"):
            s, e, tk = toks[f["tok"] % len(toks)]
            ins = ("(*" + "c" * L + "*)") if cls == "comment" else ("--" + "t" * L + "\n")
            return text[:e] + " " + ins + text[e:], True, cls
        cands = [t for t in toks if t[2] == cls]
        if not cands:
            return text, False, "no-" + cls
        s, e, tk = cands[f["tok"] % len(cands)]
        old = text[s:e]
        if cls == "keyword":
            new = old + "x" * L
        elif cls == "number":
            new = old + "7" * L
        else:
            new = "'" + "s" * L + "'"
        return text[:s] + new + text[e:], True, cls
    if kind == "nest":
        d = int(f.get("depth", 100))
        what = f.get("what", "paren")
        if what == "comment":
            s, e, tk = toks[f["tok"] % len(toks)]
            return text[:e] + " " + "(*" * d + " x " + "*)" * d + " " + text[e:], True, "nested-comment"
        vals = [t for t in toks if t[2] == "number"]
        if not vals:
            return text, False, "no-number"
        s, e, tk = vals[f["tok"] % len(vals)]
        if f.get("unbalanced"):
            return text[:s] + "(" * d + text[s:], True, "open-paren"
        return text[:s] + "(" * d + text[s:e] + ")" * d + text[e:], True, "wrap-paren"
    if kind == "nonascii":
        s, e, tk = toks[f["tok"] % len(toks)]
        return text[:s] + f.get("bytes", "\xe9\xff") + text[s:], True, "before-" + tk
    if kind == "no-final-newline":
        t = text.rstrip("\n")
        return t, t != text, "eof"
    raise ValueError(kind)


def apply_all_express(text, faults):
    fired = {}
    where = []
    for f in faults:
        text, ok, w = apply_express_fault(text, f)
        if ok:
            fired[f["kind"]] = fired.get(f["kind"], 0) + 1
            where.append("%s@%s" % (f["kind"], w))
    return text, fired, where


def gen_express_fault(r):
    k = r.choice(["truncate", "flip", "nul", "hibit", "tok-del", "tok-del", "tok-dup", "tok-swap", "tok-swap", "stretch", "stretch", "nest", "nonascii", "no-final-newline"])
    big = r.randint(0, 10 ** 9)
    if k == "truncate":
        return {"kind": k, "at": big}
    if k == "flip":
        return {"kind": k, "at": big, "mask": r.choice([1, 2, 4, 8, 16, 32, 64, 128, 255])}
    if k in ("nul", "hibit"):
        return {"kind": k, "at": big}
    if k in ("tok-del", "tok-dup", "tok-swap"):
        return {"kind": k, "tok": big}
    if k == "stretch":
        return {"kind": k, "tok": big, "cls": r.choice(["keyword", "number", "string", "comment", "tail"]), "len": r.choice([300, 1000, 10000, 50000, 100000])}
    if k == "nest":
        return {"kind": k, "tok": big, "what": r.choice(["paren", "comment"]), "depth": r.choice([5, 30, 100, 1000]), "unbalanced": r.random() < 0.3}
    if k == "nonascii":
        return {"kind": k, "tok": big, "bytes": r.choice(["\xe9", "\xff\xfe", "\x80", "\x01", "\x7f"])}
    return {"kind": k}


def pathological_schema(r):
    """synthetic lexical stress: -> (name, text, label)"""
    c = r.choice(["deep-scopes", "deep-if", "deep-expr", "long-remark", "long-string", "long-identifier", "many-entities", "deep-select", "deep-subtype"])
    n = r.choice([21, 30, 100])
    if c == "deep-scopes":
        body = "".join("FUNCTION f%d : INTEGER;\n" % k for k in range(n)) + "RETURN (1);\n" + "".join("END_FUNCTION;\nRETURN (1);\n" for _ in range(n - 1)) + "END_FUNCTION;\n"
        text = "SCHEMA patho;\n" + body + "END_SCHEMA;\n"
    elif c == "deep-if":
        text = "SCHEMA patho;\nFUNCTION f : INTEGER;\n" + "IF TRUE THEN\n" * n + "RETURN (1);\n" + "END_IF;\n" * n + "RETURN (0);\nEND_FUNCTION;\nEND_SCHEMA;\n"
    elif c == "deep-expr":
        text = "SCHEMA patho;\nCONSTANT c : INTEGER := " + "(" * n + "1" + ")" * n + ";\nEND_CONSTANT;\nEND_SCHEMA;\n"
    elif c == "long-remark":
        L = r.choice([300, 10000, 100000])
        text = "SCHEMA patho;\n(*" + "r" * L + "*)\nENTITY e; a : INTEGER; -- " + "t" * L + "\nEND_ENTITY;\nEND_SCHEMA;\n"
    elif c == "long-string":
        L = r.choice([300, 10000, 100000])
        text = "SCHEMA patho;\nCONSTANT c : STRING := '" + "s" * L + "';\nEND_CONSTANT;\nEND_SCHEMA;\n"
    elif c == "long-identifier":
        L = r.choice([300, 10000, 100000])
        idn = "e" + "x" * L
        text = "SCHEMA patho;\nENTITY %s; a : INTEGER;\nEND_ENTITY;\nTYPE t%s = INTEGER; END_TYPE;\nEND_SCHEMA;\n" % (idn, "y" * L)
    elif c == "many-entities":
        text = "SCHEMA patho;\n" + "".join("ENTITY e%d; a%d : INTEGER;\nEND_ENTITY;\n" % (k, k) for k in range(n * 10)) + "END_SCHEMA;\n"
    elif c == "deep-select":
        text = "SCHEMA patho;\nTYPE s0 = SELECT (e); END_TYPE;\n" + "".join("TYPE s%d = SELECT (s%d); END_TYPE;\n" % (k + 1, k) for k in range(n)) + "ENTITY e; a : s%d;\nEND_ENTITY;\nEND_SCHEMA;\n" % n
    else:
        text = "SCHEMA patho;\nENTITY e0; a : INTEGER;\nEND_ENTITY;\n" + "".join("ENTITY e%d SUBTYPE OF (e%d); b%d : INTEGER;\nEND_ENTITY;\n" % (k + 1, k, k) for k in range(n)) + "END_SCHEMA;\n"
    return "patho", text, "%s-%d" % (c, n)
