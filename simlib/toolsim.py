"""toolsim — runs the freshly built EXPRESS tools (check-express, exppp, exp2cxx, exp2python,
schema_scanner) as child processes inside a controlled world:

  * private directory tree per run (created and removed by the run),
  * environment built from scratch (env -i semantics) plus plan-chosen LC_ALL, padding, EXPRESS_PATH,
  * fixed base address-space layout (setarch -R) with SEEDED variation re-introduced through the
    LD_PRELOAD heap shim (heap placement/fill/scribbled frees, dirtied stack), environment size
    (moves the stack) and the load-address variant (direct exec vs. through ld.so),
  * simulated clock (the shim's time()),
  * run history (earlier runs of the same tool on the same schema in the same directory),
  * storage faults on the stored schema file (C06).
"""
import glob
import hashlib
import os
import resource
import shutil
import signal
import subprocess
import tempfile

from . import build
from .build import BUILD, REPO, VERIF

LDSO = "/lib64/ld-linux-x86-64.so.2"


def shim():
    out = os.path.join(BUILD, "engines", "libsimheap.so")
    src = os.path.join(VERIF, "engines", "simheap", "simheap.c")
    with build.lock("simheap"):
        if build.newer(out, [src]):
            os.makedirs(os.path.dirname(out), exist_ok=True)
            build.run(["gcc", "-O1", "-g", "-shared", "-fPIC", "-o", out, src])
    return out


def scanner(flavour="plain"):
    """the configure-time schema scanner, built like the top-level CMakeLists does it"""
    d = os.path.join(build.ensure(flavour), "schema_scanner_build")
    exe = os.path.join(build.bdir(flavour), "bin", "schema_scanner")
    with build.lock("scanner-" + flavour):
        srcs = [os.path.join(REPO, "cmake", "schema_scanner", "schemaScanner.cc")] + \
            glob.glob(os.path.join(REPO, "src", "express", "*.c")) + glob.glob(os.path.join(REPO, "src", "exp2cxx", "genCxxFilenames.c"))
        if build.newer(exe, srcs):
            os.makedirs(d, exist_ok=True)
            fl = build.FLAGS[flavour]
            build.run(["cmake", "-G", "Ninja", os.path.join(REPO, "cmake", "schema_scanner"), "-B", d,
                       "-DSC_ROOT=" + REPO, "-DSC_BUILDDIR=" + build.bdir(flavour), "-DCALLED_FROM=STEPCODE_CMAKELISTS",
                       "-DCMAKE_C_FLAGS=" + fl, "-DCMAKE_CXX_FLAGS=" + fl], env=build.build_env())
            build.run(["ninja", "-C", d], env=build.build_env())
            cands = [os.path.join(build.bdir(flavour), "bin", "schema_scanner"), os.path.join(d, "schema_scanner"), os.path.join(d, "bin", "schema_scanner")]
            found = [c for c in cands if os.path.exists(c)]
            if not found:
                raise build.BuildError("schema_scanner binary not found after build in %s" % d)
            if found[0] != exe:
                shutil.copy2(found[0], exe)
    return exe


def tool_path(flavour, name):
    if name == "schema_scanner":
        return scanner(flavour)
    return build.tool(flavour, name)


SHIPPED = None


def shipped_schemas():
    """[(name, path, size)] of the EXPRESS files shipped under data/, smallest first"""
    global SHIPPED
    if SHIPPED is None:
        out = []
        for p in sorted(glob.glob(os.path.join(REPO, "data", "*", "*.exp")) + glob.glob(os.path.join(REPO, "data", "*.exp"))):
            out.append((os.path.splitext(os.path.basename(p))[0], p, os.path.getsize(p)))
        out.sort(key=lambda x: (x[2], x[0]))
        SHIPPED = out
    return SHIPPED


def unitary_schemas():
    return sorted(glob.glob(os.path.join(REPO, "test", "unitary_schemas", "*.exp")))


def _tree(root, exclude):
    out = {}
    for dp, dn, fn in os.walk(root):
        dn.sort()
        for f in sorted(fn):
            p = os.path.join(dp, f)
            rel = os.path.relpath(p, root)
            if rel in exclude or os.path.islink(p):
                continue
            h = hashlib.sha256()
            try:
                with open(p, "rb") as fh:
                    data = fh.read()
            except OSError:
                continue
            h.update(data)
            out[rel] = {"sha": h.hexdigest()[:20], "size": len(data)}
    return out


def _limits(cpu_s):
    def f():
        resource.setrlimit(resource.RLIMIT_CPU, (cpu_s, cpu_s + 2))
        resource.setrlimit(resource.RLIMIT_CORE, (0, 0))
        resource.setrlimit(resource.RLIMIT_FSIZE, (1 << 30, 1 << 30))
        os.setsid()
    return f


def run_tool(flavour, tool, schema_name, schema_text, perturb=None, args=(), cpu_s=20, keep_files=None, want_bytes=(), shared_dir=True):
    """One execution. perturb: dict with keys heap_seed, env_pad, loader, cwd_depth, cwd_name, path_style,
    lc_all, express_path, clock, prior_runs, aslr.  Returns an observation dict."""
    pb = dict(perturb or {})
    exe = tool_path(flavour, tool)
    # The run directory is a function of (tool, schema) only - never of the perturbation or of the process - so that a
    # tool which writes absolute paths into its output gives the same bytes in the reference run, the perturbed run and
    # every replay.  A lock serialises the runs that share the directory.
    text_b = schema_text if isinstance(schema_text, bytes) else schema_text.encode("latin-1")
    base = os.path.join(os.environ.get("TMPDIR") or "/tmp", "verif-tool")
    os.makedirs(base, exist_ok=True)
    import fcntl
    if shared_dir:
        key = "%s-%s-%s-%s" % (flavour, tool, schema_name[:24], hashlib.sha256(text_b).hexdigest()[:10])
        top = os.path.join(base, key)
        lockf = open(os.path.join(base, key + ".lock"), "w")
        fcntl.flock(lockf, fcntl.LOCK_EX)
    else:
        # nothing this caller compares depends on the path: a private directory, no lock
        top = tempfile.mkdtemp(prefix="p.", dir=base)
        lockf = None
    try:
        shutil.rmtree(top, ignore_errors=True)
        os.makedirs(top)
        src_dir = os.path.join(top, "in")
        os.makedirs(src_dir)
        src = os.path.join(src_dir, schema_name + ".exp")
        with open(src, "wb") as f:
            f.write(text_b)
        cwd = os.path.join(top, "w")
        for k in range(int(pb.get("cwd_depth", 0))):
            cwd = os.path.join(cwd, (pb.get("cwd_name") or "d") + str(k))
        os.makedirs(cwd)
        style = pb.get("path_style", "abs")
        if style == "abs":
            arg = src
        elif style == "rel":
            arg = os.path.relpath(src, cwd)
        elif style == "dotrel":
            arg = "./" + os.path.relpath(src, cwd)
        elif style == "updown":
            arg = os.path.join(os.path.relpath(src_dir, cwd), "..", "in", schema_name + ".exp")
        elif style == "symlink":
            ln = os.path.join(top, "lnk")
            os.symlink(src_dir, ln)
            arg = os.path.join(ln, schema_name + ".exp")
        elif style == "copy-in-cwd":
            shutil.copy(src, os.path.join(cwd, schema_name + ".exp.in"))
            arg = schema_name + ".exp.in"
        else:
            arg = src
        env = {"PATH": "/usr/bin:/bin", "HOME": top, "TZ": "UTC",
               "LD_LIBRARY_PATH": build.libdir(flavour)}
        if pb.get("lc_all"):
            env["LC_ALL"] = pb["lc_all"]
        if pb.get("express_path"):
            env["EXPRESS_PATH"] = src_dir
        if pb.get("env_pad"):
            env["VERIF_PAD"] = "x" * int(pb["env_pad"])
        for k_, v_ in (pb.get("env_vars") or {}).items():
            # HOME, TMPDIR, LANG, USER, TZ, COLUMNS ...: nothing a generator writes may depend on them
            env[k_] = v_.replace("<top>", top)
            if k_ == "TMPDIR":
                os.makedirs(env[k_], exist_ok=True)
        if flavour == "san":
            env["ASAN_OPTIONS"] = "exitcode=77:detect_leaks=0:abort_on_error=0:allow_user_segv_handler=0:handle_abort=0:detect_stack_use_after_return=0"
            env["UBSAN_OPTIONS"] = "halt_on_error=1:exitcode=78:print_stacktrace=1"
        else:
            if pb.get("heap_seed") is not None:
                env["LD_PRELOAD"] = shim()
                env["SIMHEAP_SEED"] = str(int(pb["heap_seed"]))
                if pb.get("clock") is not None:
                    env["SIMHEAP_CLOCK"] = str(int(pb["clock"]))
        cmd = [exe] + list(args) + [arg]
        if pb.get("loader") == "ldso" and flavour != "san":
            cmd = [LDSO] + cmd
        if not pb.get("aslr"):
            cmd = ["setarch", "x86_64", "-R"] + cmd
        runs = []
        for k in range(int(pb.get("prior_runs", 0)) + 1):
            try:
                p = subprocess.run(cmd, cwd=cwd, env=env, stdin=subprocess.DEVNULL, stdout=subprocess.PIPE, stderr=subprocess.PIPE,
                                   timeout=cpu_s * 30 + 120, preexec_fn=_limits(cpu_s))   # the CPU limit decides; the wall clock only guards against a child that sleeps
                rc, out, err, timed = p.returncode, p.stdout, p.stderr, False
            except subprocess.TimeoutExpired as e:
                rc, out, err, timed = -9, e.stdout or b"", e.stderr or b"", True
            runs.append((rc, out, err, timed))
        rc, out, err, timed = runs[-1]
        tree = _tree(cwd, exclude=set([schema_name + ".exp.in"]))
        obs = {"rc": rc if rc >= 0 else None, "sig": -rc if rc < 0 else None, "timed_out": timed,
               "stdout": scrub(out.decode("latin-1"), top)[-3000:], "stderr": scrub(err.decode("latin-1"), top)[-6000:],
               "tree": tree, "n_files": len(tree), "prior_rcs": [r[0] for r in runs[:-1]]}
        # "no generated file contains a name that is not a function of the schema text": where the tool was BUILT is such a name
        needle = (os.path.join(REPO, "src") + "/").encode()
        hits = []
        for rel in sorted(tree):
            try:
                with open(os.path.join(cwd, rel), "rb") as fh:
                    if needle in fh.read():
                        hits.append(rel)
            except OSError:
                pass
        obs["embeds_build_path"] = hits[:8]
        for rel in want_bytes:
            p = os.path.join(cwd, rel)
            if os.path.exists(p):
                with open(p, "rb") as fh:
                    obs.setdefault("bytes", {})[rel] = fh.read().decode("latin-1")
        if keep_files:
            for rel in tree:
                if keep_files(rel):
                    with open(os.path.join(cwd, rel), "rb") as fh:
                        obs.setdefault("bytes", {})[rel] = fh.read().decode("latin-1")
        return obs
    finally:
        shutil.rmtree(top, ignore_errors=True)
        if lockf is not None:
            fcntl.flock(lockf, fcntl.LOCK_UN)
            lockf.close()


def scrub(s, top):
    return s.replace(top, "<top>")


def end_class(obs, flavour="san"):
    """None for an ordinary end (exit 0, or small positive status with a diagnostic); else a symptom string"""
    from . import core
    if obs["timed_out"] or obs["sig"] in (signal.SIGXCPU, signal.SIGKILL):
        return "hang/cpu"
    if obs["sig"]:
        fr = core._top_stepcode_frame(obs["stderr"])
        return "signal/%d%s" % (obs["sig"], ("@" + fr) if fr else "")
    rc = obs["rc"]
    if rc in (77, 78):
        return core.end_class({"end": "asan" if rc == 77 else "ubsan", "stderr": obs["stderr"]})
    if rc is None or rc < 0 or rc > 127:
        return "exit/%s" % rc
    if rc != 0 and not obs["stderr"].strip() and not obs["stdout"].strip():
        return "exit-without-diagnostic/%d" % rc
    return None
